"""C01 - lazy chained execution equals step-by-step evaluation of the same steps.

Oracles:
 (a) metamorphic: Flow(s1..sn) == evaluating the steps one at a time, each on the fully materialised
     (JSON round-tripped descriptor, copied rows) output of the previous one; == any split into segments;
     == any nesting into sub-Flows; == wrapping a sub-list in an always-true conditional; and the same
     through results(), process() and datastream().
 (b) reference for user callables: in the step-by-step evaluation user row / rows / package callables are
     applied by the harness in plain Python (not through Flow), so a link the framework silently drops
     shows up as lazy != reference - for every callable form (def, lambda, partial, bound method, object).
 (c) a link the framework cannot interpret must make construction or execution raise."""
import copy
import json

from hypothesis import strategies as st

from vlib import gen, gen_programs as gp
from vlib.kernel import (Violation, Info, unexpected, dataflows, quiet, Flow, feed, materialise, root_cause,
                         FeedStep, passthrough_desc)

PID = 'C01'
LEVEL = 'exploration'
RULE = ('cases = programs of 2-8 well-typed links over the whole step catalogue (built-in processors incl. duplicate, join, '
        'concatenate, unpivot, sort, dumpers, checkpoint, sources/load; user row/rows/package callables in 5 callable forms, '
        'in-place non-idempotent row functions) on 1-3 typed resources (0-5 rows; sparse 101-150 rows to cross the 100-row '
        'inference sample) x a drawn split x a drawn nesting tree x a drawn conditional wrapping x 3 observation modes; plus '
        'programs with one uninterpretable link (int, None, object, wrong parameter name, 0 or 2 parameters, iterables whose '
        'items are not rows: str, dict, scalars, bytes, mixed). non-trivial: '
        '>=2 links of which >=1 changes rows or descriptor; distinct by canonical case hash')
ASSUMPTIONS = [
    'the descriptor handed from one materialised step to the next is the one downstream steps see (taken before the '
    'previous step\'s streams are drained), so counters that dumpers add after draining are not part of the comparison',
    'every evaluation builds fresh step objects and fresh scratch directories (checkpoints are always first runs)',
]
BUDGET = {'quick': dict(examples=960, shards=16, seconds=80),
          'thorough': dict(examples=64000, shards=16, seconds=1200)}

BAD_LINKS = ['int', 'none', 'object', 'wrong-param', 'two-params', 'zero-params',
             # iterables whose items are not rows: the framework says 'Bad item' for each of them
             'string', 'dict', 'scalar-list', 'scalar-set', 'bytes', 'rows-then-scalar', 'dict-rows-then-list-row', 'none-item']


@st.composite
def cases_(draw):
    big = draw(st.integers(0, 12)) == 0
    sizes = (0, 1, 2, 3, 5) if not big else (2, 101, 150)
    focused = gen.rare(draw, 300)
    pkg = draw(gp.input_package(2 if focused else 1, 3, sizes=sizes if not focused else (1, 2, 3, 5),
                                types=gp.IN_TYPES + ['array', 'object']))
    gp.ALLOW_STOP_ITERATION[0] = True
    try:
        return _cases_body(draw, big, sizes, focused, pkg)
    finally:
        gp.ALLOW_STOP_ITERATION[0] = False


def _cases_body(draw, big, sizes, focused, pkg):
    if focused:
        # focused class: small catalogues of steps that keep / index / copy rows (join with the source kept, duplicate,
        # sort, concatenate, a dump) interleaved with in-place editors, so that every such pair occurs often
        kinds = draw(st.sampled_from([['join', 'row_fn'], ['duplicate', 'row_fn'], ['join', 'row_fn'],
                                      # runs of consecutive row functions (returning new dicts / editing in place)
                                      ['row_fn', 'row_fn', 'row_fn', 'add_field'],
                                      ['join', 'duplicate', 'row_fn', 'sort_rows', 'concatenate', 'dump_to_path',
                                       'add_field', 'find_replace']]))
        prog = draw(gp.programs(2, 5, pkg=pkg, kinds=kinds))
    else:
        prog = draw(gp.programs(2, 8, pkg=pkg))
    n = len(prog['steps'])
    cuts = sorted(draw(st.lists(st.integers(1, max(1, n - 1)), max_size=3, unique=True))) if n > 1 else []
    # nesting: a list of (start, end) groups to wrap into sub-Flows, possibly nested once more
    i = draw(st.integers(0, n - 1))
    j = draw(st.integers(i + 1, n))
    i2 = draw(st.integers(i, j - 1))
    j2 = draw(st.integers(i2 + 1, j))
    ci = draw(st.integers(0, n - 1))
    cj = draw(st.integers(ci + 1, n))
    c = {'pkg': prog['pkg'], 'steps': prog['steps'], 'cuts': cuts, 'nest': [i, j, i2, j2], 'cond': [ci, cj],
         'cond_form': draw(st.sampled_from(['flow', 'factory'])), 'seq': draw(st.booleans()),
         # what the always-true predicate returns: True, or another truthy value
         'cond_pred': draw(st.sampled_from(['true', 'true', 'one', 'list', 'str', 'count', 'match']))}
    # (Hypothesis' integers / sampled_from / randoms all favour their first / smallest values,
    # so the (rare) class is selected by a hash of the rest of the case instead of a draw
    import hashlib
    from vlib import jsonx
    h = int.from_bytes(hashlib.blake2b(jsonx.canon([c['steps'], c['pkg']]).encode(), digest_size=8).digest(), 'big')
    if h % 8 == 0:
        c['bad_link'] = {'kind': BAD_LINKS[(h >> 8) % len(BAD_LINKS)], 'at': (h >> 16) % (n + 1)}
    return c


def cases(tier):
    return cases_()


def jcopy(desc):
    return json.loads(json.dumps(desc))


def bad_link(kind):
    if kind == 'int':
        return 5
    if kind == 'none':
        return None
    if kind == 'object':
        return object()
    if kind == 'wrong-param':
        return lambda x: x
    if kind == 'two-params':
        return lambda row, y: row
    if kind == 'string':
        return 'abc'
    if kind == 'dict':
        return {'a': 1}
    if kind == 'scalar-list':
        return [1, 2, 3]
    if kind == 'scalar-set':
        return {1, 2}
    if kind == 'bytes':
        return b'ab'
    if kind == 'rows-then-scalar':
        return [{'a': 1}, {'a': 2}, 3]
    if kind == 'dict-rows-then-list-row':
        return [{'a': 1}, [2]]
    if kind == 'none-item':
        return [None]
    return lambda: None


def evaluate(steps_specs, descriptor, tables, ctx, seq=False, wrap=None):
    """Lazy evaluation of the given specs as ONE Flow on a materialised package -> (desc_before, rows)."""
    env = gp.Env(ctx, 'e')
    steps = [gp.build(s, env) for s in steps_specs]
    if wrap is not None:
        steps = wrap(steps)
    with quiet():
        ds = Flow(*steps).datastream(feed(descriptor, tables, sequential=seq))
        before, rows, after = materialise(ds)
    return before, rows, after


def changes_something(spec):
    return spec['k'] not in ('validate', 'printer', 'update_stats', 'finalizer', 'stream_file', 'checkpoint',
                             'dump_to_path', 'dump_to_zip')


def check(case, ctx):
    pkg, specs = case['pkg'], case['steps']
    desc0 = passthrough_desc(gen.descriptor_of(pkg))
    tables0 = gen.tables_of(pkg)
    n = len(specs)
    classes = ['len=%d' % n] + sorted({'k:' + s['k'] for s in specs})
    forms = {s.get('form') for s in specs if s['k'] in gp.USER_KINDS}
    classes += ['form:%s' % f for f in sorted(forms) if f]
    if max(len(t) for t in tables0) > 100:
        classes.append('crosses-100-row-sample')
    # ---- (c) uninterpretable link
    if case.get('bad_link'):
        env = gp.Env(ctx, 'b')
        steps = [gp.build(s, env) for s in specs]
        steps.insert(case['bad_link']['at'], bad_link(case['bad_link']['kind']))
        try:
            with quiet():
                Flow(FeedStep(desc0, tables0), *steps).results(on_error=None)
        except Exception:
            return Info(nontrivial=True, classes=classes + ['bad-link:' + case['bad_link']['kind']])
        raise Violation('uninterpretable-link-silently-skipped:%s' % case['bad_link']['kind'],
                        {'position': case['bad_link']['at'], 'program': [s['k'] for s in specs]})
    # ---- a user row function that raises StopIteration at some row: evaluated step by step this is an error at that
    # row, so the chained run has to fail as well - it must not read it as the end of the resource
    stops = [s_ for s_ in specs if s_['k'] == 'row_fn' and s_.get('fn') == 'stop_at']
    if stops:
        try:
            evaluate(specs, desc0, tables0, ctx, seq=case['seq'])
        except Exception:
            return Info(nontrivial=True, classes=classes + ['row-function-raises-StopIteration'])
        # (it ran to its end: legitimate only if no row with that id ever reached the function)
        d_, t_ = jcopy(desc0), copy.deepcopy(tables0)
        reached = False
        try:
            for s_ in specs:
                if s_ in stops:
                    if any(r.get('id') == s_['at'] for t in t_ for r in t):
                        reached = True
                        break
                    continue
                if s_['k'] in gp.USER_KINDS:
                    d_, t_ = gp.reference_apply(s_, d_, t_)
                    d_ = passthrough_desc(d_)
                else:
                    d_, t_, _ = evaluate([s_], d_, t_, ctx)
                d_ = jcopy(d_)
        except Exception:
            return Info(rejected=True, classes=['rejected:stepwise-fails-before-the-raising-function'])
        if reached:
            raise Violation('StopIteration-from-a-row-function-ends-the-resource-silently',
                            {'program': [s_['k'] for s_ in specs], 'at_id': stops[0]['at']})
        return Info(classes=classes + ['row-function-raises-StopIteration:never-reached'])
    # ---- lazy run of the whole program
    try:
        L_before, L_rows, L_after = evaluate(specs, desc0, tables0, ctx, seq=case['seq'])
    except Exception as e:
        why = gp.data_dependent_rejection(e)
        if why:
            return Info(rejected=True, classes=['rejected:' + why])
        raise unexpected(e, 'lazy run of ' + '/'.join(s['k'] for s in specs))
    # ---- (a)+(b) finest split: one step at a time on materialised data; user callables by plain Python
    d, t = jcopy(desc0), copy.deepcopy(tables0)
    for idx, s in enumerate(specs):
        try:
            if s['k'] in gp.USER_KINDS:
                d, t = gp.reference_apply(s, d, t)
                d = passthrough_desc(d)
            else:
                d, t, _ = evaluate([s], d, t, ctx)
            d = jcopy(d)
        except Exception as e:
            raise unexpected(e, 'step-by-step evaluation of %s (step %d)' % (s['k'], idx))
    compare('step-by-step', specs, L_before, L_rows, d, t)
    # ---- drawn split into segments (each segment is a lazy Flow on the materialised previous output)
    if case['cuts']:
        d, t = jcopy(desc0), copy.deepcopy(tables0)
        bounds = [0] + case['cuts'] + [n]
        try:
            for a, b in zip(bounds, bounds[1:]):
                if a < b:
                    d, t, _ = evaluate(specs[a:b], d, t, ctx)
                    d = jcopy(d)
        except Exception as e:
            raise unexpected(e, 'segment evaluation')
        compare('split', specs, L_before, L_rows, d, t)
        classes.append('split')
    # ---- nesting into sub-Flows
    i, j, i2, j2 = case['nest']

    def nest(steps):
        inner = steps[i:j]
        a, b = i2 - i, j2 - i
        # (an empty Flow() - e.g. Flow(*optional_steps) without optional steps - is a link that does nothing)
        inner = inner[:a] + [Flow(*inner[a:b])] + [Flow()] + inner[b:]
        return steps[:i] + [Flow(*inner)] + steps[j:] + [Flow()]
    try:
        nb, nr, _ = evaluate(specs, desc0, tables0, ctx, wrap=nest)
    except Exception as e:
        raise unexpected(e, 'nested evaluation')
    compare('nested', specs, L_before, L_rows, nb, nr)
    # ---- always-true conditional around a sub-list
    ci, cj = case['cond']

    def cond(steps):
        sub = Flow(*steps[ci:cj])
        arg = sub if case['cond_form'] == 'flow' else (lambda dp: sub)
        import re as _re
        pred = {'true': lambda dp: True, 'one': lambda dp: 1, 'list': lambda dp: [0], 'str': lambda dp: 'yes',
                'count': lambda dp: len(dp.resources) + 1, 'match': lambda dp: _re.match('a', 'a')}[case.get('cond_pred', 'true')]
        return steps[:ci] + [dataflows.conditional(pred, arg)] + steps[cj:]
    try:
        cb, cr, _ = evaluate(specs, desc0, tables0, ctx, wrap=cond)
    except Exception as e:
        raise unexpected(e, 'conditional-wrapped evaluation')
    compare('conditional', specs, L_before, L_rows, cb, cr)
    # ---- the same inputs given as plain Python iterables (schema inferred from a 100-row sample, rows chained lazily)
    if all(len(t) > 0 for t in tables0):
        try:
            with quiet():
                ids = Flow(*[copy.deepcopy(t) for t in tables0]).datastream()
                i_desc, i_rows, _ = materialise(ids)
            same_types = [[(f['name'], f['type']) for f in r['schema']['fields']] for r in i_desc['resources']] == \
                [[(f['name'], f['type']) for f in r['schema']['fields']] for r in desc0['resources']] and \
                [r['name'] for r in i_desc['resources']] == [r['name'] for r in desc0['resources']]
            if same_types:
                env = gp.Env(ctx, 'i')
                with quiet():
                    ds = Flow(*[(r for r in copy.deepcopy(t)) for t in tables0], *[gp.build(s_, env) for s_ in specs]).datastream()
                    ib, ir, _ = materialise(ds)
                sb, sr, _ = evaluate(specs, jcopy(i_desc), i_rows, ctx)
                compare('iterable-inputs', specs, ib, ir, sb, sr)
                classes.append('iterable-inputs')
        except Violation:
            raise
        except Exception as e:
            why = gp.data_dependent_rejection(e)
            if not why:
                raise unexpected(e, 'iterable-input evaluation')
    # ---- observation modes: results() and process() agree with datastream()
    try:
        env = gp.Env(ctx, 'r')
        with quiet():
            r_rows, r_dp, _ = Flow(FeedStep(desc0, tables0), *[gp.build(s, env) for s in specs]).results(on_error=None)
        env = gp.Env(ctx, 'p')
        captured = []

        def tap(rows):
            cur = []
            captured.append(cur)
            for r in rows:
                cur.append(r)
                yield r
        with quiet():
            p_dp, _ = Flow(FeedStep(desc0, tables0), *[gp.build(s, env) for s in specs], tap).process()
    except Exception as e:
        raise unexpected(e, 'results()/process()')
    if r_rows != L_rows:
        raise Violation('results()-rows-differ-from-datastream()', {'program': [s['k'] for s in specs]})
    if captured != L_rows:
        raise Violation('process()-rows-differ-from-datastream()', {'program': [s['k'] for s in specs]})
    if strip_volatile(r_dp.descriptor) != strip_volatile(L_after):
        raise Violation('descriptor-differs-between-results()-and-datastream()', {'program': [s['k'] for s in specs]})
    # process() ran with one extra (capturing) link at the end: its descriptor is the copy that link took
    # when the package was defined, i.e. the program's descriptor before its streams were drained
    if strip_volatile(p_dp.descriptor) != strip_volatile(L_before):
        raise Violation('descriptor-differs-between-process()-and-datastream()', {'program': [s['k'] for s in specs]})
    nontrivial = n >= 2 and any(changes_something(s) for s in specs)
    return Info(nontrivial=nontrivial, classes=classes, evals=n + 6)


def strip_volatile(desc):
    return jcopy(desc)


def compare(label, specs, L_desc, L_rows, S_desc, S_rows):
    prog = [s['k'] for s in specs]
    if len(L_rows) != len(S_rows):
        raise Violation('%s:resource-count' % label, {'lazy': len(L_rows), 'reference': len(S_rows), 'program': prog})
    ln = [r['name'] for r in L_desc['resources']]
    sn = [r['name'] for r in S_desc['resources']]
    if ln != sn:
        raise Violation('%s:resource-names' % label, {'lazy': ln, 'reference': sn, 'program': prog})
    for i, (a, b) in enumerate(zip(L_rows, S_rows)):
        if a != b:
            k = next((x for x in range(min(len(a), len(b))) if a[x] != b[x]), None)
            forms = sorted({s.get('form') for s in specs if s.get('form')})
            raise Violation('%s:rows' % label, {'resource': ln[i], 'n_lazy': len(a), 'n_reference': len(b),
                                                'first_diff': None if k is None else {'lazy': a[k], 'reference': b[k]},
                                                'program': prog, 'forms': forms})
    if jcopy(L_desc) != jcopy(S_desc):
        diff = []
        for ra, rb in zip(L_desc['resources'], S_desc['resources']):
            if jcopy(ra) != jcopy(rb):
                diff.append({'resource': ra['name'],
                             'keys': sorted(k for k in set(ra) | set(rb) if jcopy(ra.get(k)) != jcopy(rb.get(k)))})
        top = sorted(k for k in set(L_desc) | set(S_desc) if k != 'resources' and L_desc.get(k) != S_desc.get(k))
        raise Violation('%s:descriptor' % label, {'resources': diff[:3], 'package_keys': top, 'program': prog})
