"""C03 - a dumped data package loads back to the same typed data.

Oracle 1: round trip through load().  Oracle 2: the harness's independent decoder (vlib/decode.py)
reads every data file with nothing but what the written descriptor records."""
import copy
import math
import os
import decimal

from hypothesis import strategies as st

from vlib import gen, gen_dump, decode
from vlib.compare import val_eq
from vlib.kernel import Violation, Info, unexpected, dataflows, root_cause, run_steps, quiet, Flow

PID = 'C03'
LEVEL = 'exploration'
RULE = ('cases = packages of 1-3 resources x 1-6 fields (string/integer/number/boolean/date/time/datetime/year/array/'
        'object, schema order not alphabetical, optional primary key) x 0-8 rows (nulls, negatives, 30-digit decimals, '
        'quotes, delimiters, newlines, non-BMP unicode, years < 1000) x format csv/json x dump_to_path/dump_to_zip x '
        'add_filehash_to_path x temporal_format_property (per-field strftime format) x pretty_descriptor; non-trivial: a '
        '"hard" cell (quote, delimiter, newline, non-BMP, null next to empty string, >=20-digit decimal, year<1000) | >=2 '
        'resources | a non-default option; distinct by canonical case hash')
ASSUMPTIONS = [
    'temporal values at second precision and naive; strings without carriage returns and without edge whitespace',
    'an empty string in a string field is the same as null (schema missingValues [""] - the rule the dumper itself applies)',
    'JSON format: numbers compared at double precision; custom strftime formats only with years >= 1000',
]
BUDGET = {'quick': dict(examples=2000, shards=16, seconds=75),
          'thorough': dict(examples=60000, shards=16, seconds=1200)}


@st.composite
def cases_(draw):
    opts = draw(gen_dump.dump_options(counters=True))
    # JSON + non-alphabetical schema order cannot be loaded back (known finding): keep most JSON cases
    # alphabetical so that the rest of the round trip is still explored for that format
    alpha = opts['format'] == 'json' and draw(st.integers(0, 3)) != 0
    mixed = gen.rare(draw, 120)
    pkg = draw(gen_dump.dump_package(tfp=opts['tfp'], sort_fields=alpha or mixed))
    if mixed:
        # force_format=False: every resource is written in the format its own path names
        gen_dump.per_resource_formats(draw, pkg, opts)
    c = {'pkg': pkg, 'opts': opts}
    if gen.rare(draw, 25) and pkg[0]['rows']:
        # a resource longer than the writers' batches (1001-1100 rows, repeating the drawn rows)
        c['repeat_to'] = draw(st.integers(1001, 1100))
    # a later step of the same flow edits the rows in place: the dump holds them as they were at the dumper's position
    c['follow'] = draw(st.integers(0, 3)) == 0
    # a second file dumper of the OTHER format later in the same flow (step instances share nothing)
    c['second_dumper'] = draw(st.integers(0, 4)) == 0
    return c


def cases(tier):
    return cases_()


def norm_value(v, ftype, fmt):
    if ftype == 'string' and v == '':
        return None
    return v


def value_eq(got, exp, ftype, fmt):
    if exp is None or got is None:
        return exp is None and got is None
    if ftype == 'any':
        # an untyped field: a CSV file carries the text of the value (there is no type to decode it with), JSON the native
        return str(got) == str(exp) if fmt != 'json' else val_eq(got, exp)
    if ftype == 'number':
        if isinstance(got, bool) or not isinstance(got, (int, float, decimal.Decimal)):
            return False
        if fmt == 'json':
            return math.isclose(float(got), float(exp), rel_tol=1e-15, abs_tol=0.0) or float(got) == float(exp)
        return val_eq(got, exp, exact_numbers=not isinstance(exp, float))
    if ftype in ('integer', 'year'):
        return isinstance(got, int) and not isinstance(got, bool) and got == exp
    if ftype == 'boolean':
        return isinstance(got, bool) and got == exp
    if ftype in ('array', 'object'):
        return val_eq(got, exp)
    return type(got) is type(exp) and got == exp


def hard_cell(v):
    if isinstance(v, str):
        return any(ch in v for ch in '",;\n\t|') or any(ord(ch) > 0xFFFF for ch in v)
    if isinstance(v, decimal.Decimal):
        return len(v.as_tuple().digits) >= 20
    if hasattr(v, 'year') and not isinstance(v, int):
        return getattr(v, 'year', 2000) < 1000
    return False


def inplace_edit(row):
    """User row step placed after the dumper: edits top-level and nested values in place (returns None)."""
    for k, v in list(row.items()):
        if isinstance(v, list):
            v.append('!')
        elif isinstance(v, dict):
            v['!'] = 1
        elif isinstance(v, str):
            row[k] = v + '!'
        elif isinstance(v, int) and not isinstance(v, bool):
            row[k] = v + 1


def check(case, ctx):
    pkg, opts = case['pkg'], case['opts']
    if case.get('repeat_to') and pkg[0]['rows'] and not pkg[0].get('pk'):
        base = pkg[0]['rows']
        pkg = [dict(pkg[0], rows=[copy.deepcopy(base[i % len(base)]) for i in range(case['repeat_to'])])] + list(pkg[1:])
    desc = gen.descriptor_of(pkg)
    tables = gen.tables_of(pkg)
    out_dir = ctx.tmpdir()
    step, loc = gen_dump.build_dumper(dataflows, opts, out_dir)
    fmts = [gen_dump.res_format(opts, r) for r in pkg]
    classes = ['fmt:' + (opts['format'] if opts.get('force_format', True) else 'per-resource'), 'dumper:' + opts['dumper']]
    for k in ('add_filehash_to_path', 'tfp'):
        if opts[k]:
            classes.append('opt:' + k)
    if case.get('repeat_to'):
        classes.append('more-than-1000-rows')
    if case.get('follow'):
        classes.append('followed-by-in-place-edit')
    extra_steps = [inplace_edit] if case.get('follow') else []
    if case.get('second_dumper'):
        other = dict(opts, format='json' if opts['format'] == 'csv' else 'csv', dumper='zip' if opts['dumper'] == 'path' else 'path',
                     force_format=True)
        step2, _loc2 = gen_dump.build_dumper(dataflows, other, ctx.tmpdir())
        extra_steps.insert(0, step2)          # (before the editing step: the edited values need not fit the schema)
        classes.append('second-dumper-of-the-other-format')
    try:
        run_steps([step] + extra_steps, desc, tables)
    except Exception as e:
        raise unexpected(e, 'dump')
    expected = []
    for r, fmt in zip(pkg, fmts):
        rows = [{f['name']: norm_value(row[f['name']], f['type'], fmt) for f in r['fields']} for row in r['rows']]
        expected.append(rows)
    # ---- oracle 2: independent decode with the written descriptor only
    store = decode.Store(loc)
    try:
        try:
            wd = decode.read_descriptor(store)
        except decode.DecodeError as e:
            raise Violation('descriptor-unreadable', {'error': str(e)})
        if [r['name'] for r in wd['resources']] != [r['name'] for r in pkg]:
            raise Violation('resources-written', {'got': [r['name'] for r in wd['resources']]})
        for r, wr, exp, fmt in zip(pkg, wd['resources'], expected, fmts):
            if wr.get('format', 'csv') != fmt:
                raise Violation('written-format', {'resource': r['name'], 'got': wr.get('format'), 'expected': fmt})
            sig = [(f['name'], f['type']) for f in wr['schema']['fields']]
            if sig != [(f['name'], f['type']) for f in r['fields']]:
                raise Violation('written-schema', {'got': sig, 'resource': r['name']})
            if wr['schema'].get('primaryKey', []) not in (r.get('pk', []), (r.get('pk') or [None])[0]):
                raise Violation('written-primary-key', {'got': wr['schema'].get('primaryKey'), 'expected': r.get('pk')})
            try:
                rows, _raw = decode.decode_resource(store, wr)
            except decode.DecodeError as e:
                msg = str(e)
                sig = 'independent-decode:' + ('file-missing' if 'does not exist' in msg else
                                               'header' if 'header' in msg else 'cells')
                raise Violation(sig, {'resource': r['name'], 'error': msg[:400], 'listing': store.listing()[:10]})
            compare_rows('independent-decode', rows, exp, r, dict(opts, format=fmt))
    finally:
        store.close()
    # ---- oracle 1: load() round trip
    try:
        with quiet():
            if opts['dumper'] == 'path':
                src = dataflows.load(loc + '/datapackage.json', strip=False)
            else:
                src = dataflows.load(loc, format='datapackage', strip=False)
            res, dp, _ = Flow(src).results()
    except Exception as e:
        rc = root_cause(e)
        order = [[f['name'] for f in r['fields']] for r in pkg]
        if 'json' in fmts and any(o != sorted(o) for o in order) and type(rc).__name__ == 'CastError':
            raise Violation('load-roundtrip:json-non-alphabetical-field-order', {'error': str(rc)[:300]})
        raise Violation('load-roundtrip:raises:%s' % type(rc).__name__, {'error': str(rc)[:400]})
    ld = dp.descriptor
    if [r['name'] for r in ld['resources']] != [r['name'] for r in pkg] or len(res) != len(pkg):
        raise Violation('load-roundtrip:resources', {'got': [r['name'] for r in ld['resources']], 'streams': len(res)})
    for r, lr, rows, exp, fmt in zip(pkg, ld['resources'], res, expected, fmts):
        sig = [(f['name'], f['type']) for f in lr['schema']['fields']]
        if sig != [(f['name'], f['type']) for f in r['fields']]:
            raise Violation('load-roundtrip:schema', {'got': sig, 'resource': r['name']})
        pk = lr['schema'].get('primaryKey', [])
        if (pk if isinstance(pk, list) else [pk]) != r.get('pk', []):
            raise Violation('load-roundtrip:primary-key', {'got': pk, 'expected': r.get('pk')})
        compare_rows('load-roundtrip', rows, exp, r, dict(opts, format=fmt))
    hard = any(hard_cell(v) for r in pkg for row in r['rows'] for v in row.values())
    nulls = any(row[f['name']] is None for r in pkg for row in r['rows'] for f in r['fields'] if f['type'] == 'string') and \
        any(row[f['name']] == '' for r in pkg for row in r['rows'] for f in r['fields'] if f['type'] == 'string')
    nt = hard or nulls or len(pkg) >= 2 or fmts != ['csv'] * len(pkg) or opts['dumper'] != 'path' or \
        opts['add_filehash_to_path'] or bool(opts['tfp'])
    if hard:
        classes.append('hard-cell')
    return Info(nontrivial=nt, classes=classes, evals=2)


def compare_rows(prefix, rows, exp, r, opts):
    if len(rows) != len(exp):
        raise Violation('%s:row-count' % prefix, {'resource': r['name'], 'got': len(rows), 'expected': len(exp)})
    for g, e in zip(rows, exp):
        if set(g) != set(e):
            raise Violation('%s:row-keys' % prefix, {'got': sorted(g), 'expected': sorted(e)})
        for f in r['fields']:
            if not value_eq(g[f['name']], e[f['name']], f['type'], opts['format']):
                order = [x['name'] for x in r['fields']]
                sig = '%s:value:%s' % (prefix, f['type'])
                if opts['format'] == 'json' and order != sorted(order) and sorted(map(repr, g.values())) == sorted(map(repr, e.values())):
                    sig = '%s:json-values-in-wrong-columns' % prefix
                raise Violation(sig, {'resource': r['name'], 'field': f['name'], 'got': g[f['name']],
                                      'expected': e[f['name']], 'format': opts['format']})
