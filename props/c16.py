"""C16 - resource-level restructuring conserves rows (concatenate, duplicate, delete_resource,
appending sources).  Oracle: reference model + conservation of tagged rows."""
import re
import copy

from hypothesis import strategies as st

from vlib import gen
from vlib.compare import rows_eq, first_diff, schema_sig
from vlib.kernel import (Violation, Info, unexpected, dataflows, root_cause, quiet, feed, materialise, Flow,
                         passthrough_desc)

PID = 'C16'
LEVEL = 'exploration'
RULE = ('cases = op in {concatenate, duplicate, delete_resource, append(iterable|generator|load-tuple|sources|two-iterables), '
        'rename} x packages of 1-5 resources with colliding names, differing schemas, sizes 0..5 (sparse: 1001-1100) x '
        'selector forms x field mappings x duplicate_to_end x batch sizes; non-trivial: >=3 resources with the affected one(s) '
        'not all at the ends | an empty resource among the affected | a large (>1000 rows) resource; distinct by canonical case hash')
ASSUMPTIONS = [
    'concatenate: per resource at most one source field maps to each target field; >=1 resource selected',
    'duplicate: target name is fresh; appended iterables: base resource names do not look like res_<n> (the auto-name)',
    'appended iterable rows share one key set and contain no empty strings (tableschema reads "" as missing)',
]
BUDGET = {'quick': dict(examples=3200, shards=16, seconds=70),
          'thorough': dict(examples=100000, shards=16, seconds=1200)}

NAMES_NO_AUTO = [n for n in gen.RES_NAMES if not re.fullmatch(r'res_\d+', n)]


def select(selector, names):
    """The documented selector semantics (None / full-match regex / list / index)."""
    if selector is None:
        return list(range(len(names)))
    if isinstance(selector, str):
        return [i for i, n in enumerate(names) if re.fullmatch(selector, n)]
    if isinstance(selector, int):
        return [range(len(names))[selector]]
    return [i for i, n in enumerate(names) if n in selector]


def sizes(tier_big=False):
    base = st.sampled_from([0, 0, 1, 2, 3, 5])
    return base


@st.composite
def tagged_pkg(draw, min_res=1, max_res=5, names=None, allow_big=True):
    n = draw(st.integers(min_res, max_res))
    chosen = draw(st.lists(st.sampled_from(names or gen.RES_NAMES), min_size=n, max_size=n, unique=True))
    big_at = draw(st.integers(0, n - 1)) if (allow_big and gen.rare(draw, 40)) else 99
    pkg = []
    for i, nm in enumerate(chosen):
        flds = draw(gen.fields(1, 3, names=gen.FIELD_NAMES, types=gen.TYPES_BASIC))
        flds = [{'name': '_tag', 'type': 'string'}] + [f for f in flds if f['name'] != '_tag']
        if i == big_at:
            k = draw(st.integers(1001, 1100))
            proto = draw(gen.rows_for(flds[1:], 3, 3))
            rows = [copy.deepcopy(proto[j % 3]) for j in range(k)]   # no nested value shared between rows
        else:
            k = draw(st.sampled_from([0, 0, 1, 2, 3, 5]))
            rows = draw(gen.rows_for(flds[1:], k, k))
        for j, r in enumerate(rows):
            r['_tag'] = '%s#%d' % (nm, j)
        pkg.append({'name': nm, 'fields': flds, 'rows': rows})
    return pkg


def selector_for(names, idxs, draw):
    """A selector form whose documented meaning is exactly `idxs` (or None if no such form drawn)."""
    forms = []
    sel_names = [names[i] for i in idxs]
    forms.append(list(sel_names))
    if len(idxs) == len(names):
        forms.append(None)
    if len(idxs) == 1:
        forms += [idxs[0], idxs[0] - len(names), re.escape(sel_names[0])]
        if select(sel_names[0], names) == idxs:
            forms.append(sel_names[0])
    alt = '|'.join(re.escape(n) for n in sel_names)
    forms.append(alt)
    forms.append('(' + alt + ')')
    for pat in ['a.*', 'a.b', 'res_1.*', '.*b', 'a.?b', '[ab]', '.+']:
        if select(pat, names) == idxs:
            forms.append(pat)
    return draw(st.sampled_from(forms))


@st.composite
def concat_case(draw):
    n = draw(st.integers(1, 5))
    names = draw(st.lists(st.sampled_from(gen.RES_NAMES), min_size=n, max_size=n, unique=True))
    n_t = draw(st.integers(1, 3))
    targets = ['t%d' % (k + 1) for k in range(n_t)]
    ttype = {t: draw(st.sampled_from(['string', 'integer', 'date', 'number'])) for t in targets}
    pkg = []
    for nm in names:
        flds = [{'name': '_tag', 'type': 'string'}]
        for t in targets:
            pick = draw(st.sampled_from([None, t, t + '_a', t + '_b']))
            if pick:
                flds.append({'name': pick, 'type': ttype[t]})
        if draw(st.booleans()):
            flds.append({'name': 'zz', 'type': 'string'})
        flds = [flds[0]] + list(draw(st.permutations(flds[1:])))
        k = draw(st.sampled_from([0, 1, 2, 4]))
        rows = draw(gen.rows_for(flds[1:], k, k))
        for j, r in enumerate(rows):
            r['_tag'] = '%s#%d' % (nm, j)
        pkg.append({'name': nm, 'fields': flds, 'rows': rows})
    i = draw(st.integers(0, n - 1))
    j = draw(st.integers(i, n - 1))
    idxs = list(range(i, j + 1))
    if n >= 3 and draw(st.integers(0, 9)) == 0:
        idxs = [0, n - 1]            # non-consecutive: documented as an error
    sel = selector_for(names, idxs, draw)
    fields = {'_tag': []}
    for t in targets:
        srcs = draw(st.lists(st.sampled_from([t + '_a', t + '_b']), max_size=2, unique=True))
        fields[t] = draw(st.sampled_from([srcs, srcs, None])) if not srcs else srcs
    follow = draw(st.sampled_from([None, None, None, 'head']))
    target = draw(st.sampled_from([None, {'name': 'merged'}, {'name': 'merged', 'path': 'data/m.csv'},
                                   # 'merge into the first / last one': the target re-uses the name of a selected resource
                                   {'name': names[idxs[0]]}, {'name': names[idxs[-1]]}]))
    return {'op': 'concat', 'pkg': pkg, 'sel': sel, 'fields': fields, 'target': target, 'follow': follow}


@st.composite
def duplicate_case(draw):
    pkg = draw(tagged_pkg(1, 4))
    names = [r['name'] for r in pkg]
    src = draw(st.sampled_from([None] + names))
    return {'op': 'duplicate', 'pkg': pkg, 'source': src,
            'target_name': draw(st.sampled_from([None, 'the_copy'])),
            'target_path': draw(st.sampled_from([None, 'x/copy.csv'])),
            'to_end': draw(st.booleans()), 'batch': draw(st.sampled_from([1, 2, 1000, None])),
            # a later step of the same flow that edits rows in place (top-level and nested values): the copy is
            # 'an exact copy of the chosen resource' as of the duplicate step, so it receives the edit exactly once
            # ... or a later step that edits the schema of only the original / only the copy
            'follow': draw(st.sampled_from([None, None, 'inplace', 'delete_in_original', 'delete_in_copy', 'head']))}


@st.composite
def delete_case(draw):
    pkg = draw(tagged_pkg(1, 5))
    names = [r['name'] for r in pkg]
    n = len(names)
    idxs = sorted(draw(st.lists(st.integers(0, n - 1), min_size=0, max_size=n, unique=True)))
    if idxs:
        sel = selector_for(names, idxs, draw)
    else:
        sel = draw(st.sampled_from([[], ['nope'], 'nope', 'a']))
        if select(sel, names):
            sel = []
    return {'op': 'delete', 'pkg': pkg, 'sel': sel}


@st.composite
def plain_rows(draw, max_rows=4, min_rows=0):
    flds = draw(gen.fields(1, 3, names=gen.PLAIN_FIELD_NAMES,
                           types=['string', 'integer', 'number', 'boolean', 'date', 'array', 'object']))
    k = draw(st.integers(min_rows, max_rows))
    rows = draw(gen.rows_for(flds, k, k, nulls=False))
    for r in rows:
        for key, v in list(r.items()):
            if v == '':
                r[key] = 'x'
    return flds, rows


@st.composite
def append_case(draw):
    pkg = draw(tagged_pkg(0, 3, names=NAMES_NO_AUTO, allow_big=False))
    mode = draw(st.sampled_from(['iterable', 'generator', 'two_iterables', 'sources', 'sources_flow', 'load_tuple', 'rename',
                                 'late_bad_item']))
    if mode == 'sources_flow':
        # upstream resources carry the automatic names, so the names of the appended ones can collide
        # (a drawn subset of the first automatic names, in order: [res_1], [res_1, res_3], [res_2] ... so that the renamed
        # resources run into names that are taken, or that a later resource of the same source brings along)
        sub = [n for n in ['res_1', 'res_2', 'res_3', 'a'] if draw(st.booleans())]
        pkg = draw(tagged_pkg(len(sub), len(sub), names=sub, allow_big=False)) if sub else []
        pkg.sort(key=lambda r: sub.index(r['name']))
    case = {'op': 'append', 'mode': mode, 'pkg': pkg}
    if mode == 'late_bad_item':
        # an appended iterable whose item number `at` (beyond the 100-row inference sample) is not a row: the run has to
        # fail - ending the resource there would silently lose the rows behind it
        case['n'] = draw(st.sampled_from([130, 180]))
        case['at'] = draw(st.sampled_from([100, 101, 115, 129]))
        case['as'] = draw(st.sampled_from(['list', 'generator']))
        return case
    if mode == 'rename':
        if not pkg:
            pkg.append({'name': 'a', 'fields': [{'name': '_tag', 'type': 'string'}], 'rows': [{'_tag': 'a#0'}]})
        names = [r['name'] for r in pkg]
        i = draw(st.integers(0, len(names) - 1))
        case['sel'] = selector_for(names, [i], draw)
        case['new_name'] = 'renamed'
        return case
    if mode == 'load_tuple':
        sub = draw(tagged_pkg(1, 3, names=['n1', 'n2', 'n.3', 'n13'], allow_big=False))
        names = [r['name'] for r in sub]
        idxs = sorted(draw(st.lists(st.integers(0, len(names) - 1), min_size=1, max_size=len(names), unique=True)))
        case['sub'] = sub
        case['sel'] = selector_for(names, idxs, draw)
        return case
    k = 2 if mode in ('two_iterables', 'sources', 'sources_flow') else 1
    case['new'] = []
    for _ in range(k):
        flds, rows = draw(plain_rows())
        case['new'].append({'fields': flds, 'rows': rows})
    return case


def cases(tier):
    return st.tuples(st.one_of(concat_case(), duplicate_case(), delete_case(), append_case()), st.booleans()).map(
        lambda t: dict(t[0], seq=t[1]))


# ------------------------------------------------------------------ check
class Reject(Exception):
    pass


def inplace_edit(row):
    """User row step: edits top-level and nested values in place (returns None)."""
    for k, v in list(row.items()):
        if k == '_tag':
            continue
        if isinstance(v, list):
            v.append('!')
        elif isinstance(v, dict):
            v['!'] = 1
        elif isinstance(v, str):
            row[k] = v + '!'
        elif isinstance(v, int) and not isinstance(v, bool):
            row[k] = v + 1


def model_concat(case):
    pkg = case['pkg']
    names = [r['name'] for r in pkg]
    idxs = select(case['sel'], names)
    if idxs != list(range(idxs[0], idxs[-1] + 1)):
        raise Reject('non-consecutive')
    fields = case['fields']
    mapping = {}
    for t, srcs in fields.items():
        for s in (srcs or []):
            mapping[s] = t
        mapping[t] = t
    out_rows = []
    for i in idxs:
        for row in pkg[i]['rows']:
            new = {t: None for t in fields}
            vals = {mapping[k]: v for k, v in row.items() if k in mapping and v is not None}
            if not vals:
                raise Reject('empty row')
            new.update(vals)
            out_rows.append(new)
    tname = (case['target'] or {}).get('name', 'concat')
    res_names = names[:idxs[0]] + [tname] + names[idxs[-1] + 1:]
    res_rows = [r['rows'] for r in pkg[:idxs[0]]] + [out_rows] + [r['rows'] for r in pkg[idxs[-1] + 1:]]
    return res_names, res_rows, idxs


def check(case, ctx):
    op = case['op']
    pkg = case['pkg']
    names = [r['name'] for r in pkg]
    desc = gen.descriptor_of(pkg)
    tables = gen.tables_of(pkg)
    in_tables = tables
    classes = [op]
    head_follow = False
    reject = None
    schema_edit = None
    big = any(len(r['rows']) > 1000 for r in pkg)
    if op == 'concat':
        try:
            exp_names, exp_rows, idxs = model_concat(case)
        except Reject as e:
            reject = str(e)
            idxs = []
        # another concatenate step of the same process, created before this one and never run (flows are often defined
        # first and run later); neither passes a target of its own - step instances share nothing
        decoy = dataflows.concatenate({'zzz_decoy': [], 'zzz_other': ['q']})
        steps = [dataflows.concatenate(copy.deepcopy(case['fields']),
                                       *([copy.deepcopy(case['target'])] if case['target'] is not None else []),
                                       resources=copy.deepcopy(case['sel']))]
        if case['target'] is None:
            # ... and that other step RUNS (in a flow of its own) before this one does
            from vlib.kernel import run_steps
            zz = [{'name': 'zz%d' % i, 'fields': [{'name': 'zzz_decoy', 'type': 'string'}, {'name': 'q', 'type': 'string'}],
                   'rows': [{'zzz_decoy': 'd%d' % i, 'q': 'x'}], 'pk': ['zzz_decoy']} for i in (1, 2)]
            try:
                run_steps([decoy], gen.descriptor_of(zz), gen.tables_of(zz))
            except Exception as e:
                raise unexpected(e, 'decoy concatenate')
        affected = idxs
        if case.get('follow') == 'head' and reject is None:
            # a later step reads only the first row of every resource: the resources behind the concatenated one are
            # still themselves
            def first_row_only_c(rows):
                for r in rows:
                    yield r
                    return
            steps.append(first_row_only_c)
            exp_rows = [t[:1] for t in exp_rows]
            head_follow = True
            classes.append('concat:followed-by-an-early-stopping-step')
    elif op == 'duplicate':
        src = case['source'] if case['source'] is not None else names[0]
        si = names.index(src)
        tname = case['target_name'] or src + '_copy'
        kw = {}
        if case['batch'] is not None:
            kw['batch_size'] = case['batch']
        steps = [dataflows.duplicate(case['source'], case['target_name'], case['target_path'],
                                     duplicate_to_end=case['to_end'], **kw)]
        if case['to_end']:
            exp_names = names + [tname]
            exp_rows = tables + [tables[si]]
        else:
            exp_names = names[:si + 1] + [tname] + names[si + 1:]
            exp_rows = tables[:si + 1] + [tables[si]] + tables[si + 1:]
        affected = [si]
        classes.append('dup:end' if case['to_end'] else 'dup:after')
        if case.get('follow') in ('delete_in_original', 'delete_in_copy'):
            victim = [f['name'] for f in pkg[si]['fields'] if f['name'] != '_tag']
            if victim:
                who = src if case['follow'] == 'delete_in_original' else tname
                steps.append(dataflows.delete_fields([victim[-1]], resources=[who], regex=False))
                wi = exp_names.index(who) if case['follow'] == 'delete_in_original' else \
                    (len(exp_names) - 1 if case['to_end'] else exp_names.index(tname))
                exp_rows = [copy.deepcopy(t) for t in exp_rows]
                exp_rows[wi] = [{k: v for k, v in r.items() if k != victim[-1]} for r in exp_rows[wi]]
                classes.append('dup:followed-by-schema-edit-of-one-twin')
                schema_edit = (wi, victim[-1])
        elif case.get('follow') == 'head':
            # a later step reads only the first row of every resource: the copy is still a copy of the whole resource
            def first_row_only(rows):
                for r in rows:
                    yield r
                    return
            steps.append(first_row_only)
            exp_rows = [t[:1] for t in exp_rows]
            tables = [t[:1] for t in tables]          # (for the conservation count below)
            classes.append('dup:followed-by-an-early-stopping-step')
            head_follow = True
        elif case.get('follow'):
            steps.append(inplace_edit)
            exp_rows = [copy.deepcopy(t) for t in exp_rows]   # (one deepcopy call would keep the copy aliased)
            for t in exp_rows:
                for r in t:
                    inplace_edit(r)
            classes.append('dup:followed-by-in-place-edit')
    elif op == 'delete':
        idxs = select(case['sel'], names)
        steps = [dataflows.delete_resource(copy.deepcopy(case['sel']))]
        exp_names = [n for i, n in enumerate(names) if i not in idxs]
        exp_rows = [t for i, t in enumerate(tables) if i not in idxs]
        affected = idxs
        classes.append('sel:' + type(case['sel']).__name__)
    else:
        mode = case['mode']
        classes.append('append:' + mode)
        affected = []
        if mode == 'late_bad_item':
            items = [{'k': j, 'w': 'r%d' % j} if j != case['at'] else 12345 for j in range(case['n'])]
            src_ = items if case['as'] == 'list' else (x for x in items)
            try:
                with quiet():
                    ds = Flow(src_).datastream(feed(desc, tables, sequential=case.get('seq', False)))
                    _d, out_rows_, _ = materialise(ds)
            except Exception:
                return Info(nontrivial=True, classes=classes + ['rejected:bad-item-beyond-the-sample'], rejected=True)
            raise Violation('append:bad-item-accepted-rows-lost', {'rows_emitted': len(out_rows_[-1]), 'items': case['n'],
                                                                  'bad_item_at': case['at']})
        if mode == 'rename':
            i = select(case['sel'], names)
            assert len(i) == 1
            steps = [dataflows.update_resource(copy.deepcopy(case['sel']), name=case['new_name'])]
            exp_names = list(names)
            exp_names[i[0]] = case['new_name']
            exp_rows = tables
            affected = i
        elif mode == 'load_tuple':
            sub = case['sub']
            snames = [r['name'] for r in sub]
            idxs = select(case['sel'], snames)
            sdesc = gen.descriptor_of(sub)
            if case.get('seq'):
                its = (rw.it for rw in feed(sdesc, gen.tables_of(sub), sequential=True).res_iter)
            else:
                its = [iter(copy.deepcopy(r['rows'])) for r in sub]
            steps = [dataflows.load((sdesc, its), resources=copy.deepcopy(case['sel']))]
            exp_names = names + [snames[i] for i in idxs]
            exp_rows = tables + [sub[i]['rows'] for i in idxs]
        else:
            new = case['new']
            if mode == 'iterable':
                steps = [copy.deepcopy(new[0]['rows'])]
            elif mode == 'generator':
                steps = [(r for r in copy.deepcopy(new[0]['rows']))]
            elif mode == 'two_iterables':
                steps = [copy.deepcopy(new[0]['rows']), (r for r in copy.deepcopy(new[1]['rows']))]
            elif mode == 'sources_flow':
                steps = [dataflows.sources(Flow(copy.deepcopy(new[0]['rows']), (r for r in copy.deepcopy(new[1]['rows']))))]
            else:
                steps = [dataflows.sources(copy.deepcopy(new[0]['rows']), (r for r in copy.deepcopy(new[1]['rows'])))]
            exp_names = names + ['res_%d' % (len(names) + 1 + k) for k in range(len(new))]
            if mode in ('sources', 'sources_flow'):
                exp_names = names + ['?', '?'][:len(new)]  # each source is its own sub-flow; only uniqueness is asserted
            exp_rows = tables + [n['rows'] for n in new]
    try:
        with quiet():
            # (an early-stopping step is only meaningful over sources that can be read independently of each other:
            # the harness' one-stream emulation has no notion of skipping)
            ds = Flow(*steps).datastream(feed(desc, in_tables, sequential=case.get('seq', False) and not head_follow))
            out_desc, out_rows, _ = materialise(ds)
    except Exception as e:
        rc = root_cause(e)
        if reject is not None and isinstance(rc, AssertionError):
            return Info(rejected=True, classes=classes + ['rejected:' + reject])
        raise unexpected(e, op)
    if reject is not None:
        raise Violation('%s:accepted-input-the-docs-reject' % op, {'why': reject})
    got_names = [r['name'] for r in out_desc['resources']]
    if len(out_rows) != len(got_names):
        raise Violation('%s:streams-vs-descriptors' % op, {'streams': len(out_rows), 'descriptors': got_names})
    if len(set(got_names)) != len(got_names):
        raise Violation('%s:duplicate-resource-names' % op, {'got': got_names})
    if not (op == 'append' and case['mode'] in ('sources', 'sources_flow')):
        if got_names != exp_names:
            raise Violation('%s:resource-names-or-order' % op, {'got': got_names, 'expected': exp_names})
    elif got_names[:len(names)] != names or len(got_names) != len(exp_names):
        raise Violation('%s:resource-names-or-order' % op, {'got': got_names, 'expected': exp_names})
    for i, (g, e) in enumerate(zip(out_rows, exp_rows)):
        if not rows_eq(g, e):
            d = first_diff(g, e)
            kind = 'rows'
            if sorted(map(repr, g)) == sorted(map(repr, e)):
                kind = 'row-order'
            raise Violation('%s:%s' % (op, kind), {'resource': got_names[i], 'diff': d})
    if op == 'append' and case['mode'] in ('sources', 'sources_flow', 'iterable', 'two_iterables', 'generator') and \
            len(got_names) > len(names):
        # a later step that selects the FIRST appended resource by the name it has now: exactly that resource goes, every
        # other resource keeps its rows (the appended streams carry the names the descriptor gives them)
        victim = got_names[len(names)]
        steps2 = []
        new = case['new']
        mode = case['mode']
        if mode == 'iterable':
            steps2 = [copy.deepcopy(new[0]['rows'])]
        elif mode == 'generator':
            steps2 = [(r for r in copy.deepcopy(new[0]['rows']))]
        elif mode == 'two_iterables':
            steps2 = [copy.deepcopy(new[0]['rows']), (r for r in copy.deepcopy(new[1]['rows']))]
        elif mode == 'sources_flow':
            steps2 = [dataflows.sources(Flow(copy.deepcopy(new[0]['rows']), (r for r in copy.deepcopy(new[1]['rows']))))]
        else:
            steps2 = [dataflows.sources(copy.deepcopy(new[0]['rows']), (r for r in copy.deepcopy(new[1]['rows'])))]
        try:
            with quiet():
                ds2 = Flow(*steps2, dataflows.delete_resource([victim])).datastream(feed(desc, tables, sequential=case.get('seq', False)))
                d2, r2, _ = materialise(ds2)
        except Exception as e:
            raise unexpected(e, 'append + delete_resource of the first appended resource')
        exp_n2 = [n_ for n_ in got_names if n_ != victim]
        exp_r2 = [t for n_, t in zip(got_names, out_rows) if n_ != victim]
        if [r['name'] for r in d2['resources']] != exp_n2 or len(r2) != len(exp_r2):
            raise Violation('append:then-delete-by-name:resources', {'got': [r['name'] for r in d2['resources']], 'expected': exp_n2})
        for g, e, n_ in zip(r2, exp_r2, exp_n2):
            if not rows_eq(g, e):
                raise Violation('append:then-delete-by-name:rows', {'resource': n_, 'diff': first_diff(g, e)})
        classes.append('append-then-select-by-name')
    # descriptors of untouched resources are identical; duplicate's copy is a renamed deep copy
    in_by_name = {r['name']: r for r in passthrough_desc(desc)['resources']}
    for i, r in enumerate(out_desc['resources']):
        if r['name'] in in_by_name and not (op == 'append' and case['mode'] in ('sources', 'sources_flow') and i >= len(names)):
            if op == 'concat' and r['name'] == (case['target'] or {}).get('name', 'concat'):
                continue
            exp_r = in_by_name[r['name']]
            if schema_edit is not None and i == schema_edit[0]:
                exp_r = copy.deepcopy(exp_r)
                exp_r['schema']['fields'] = [f for f in exp_r['schema']['fields'] if f['name'] != schema_edit[1]]
            if r != exp_r:
                raise Violation('%s:bystander-descriptor-changed' % op, {'resource': r['name']})
    if op == 'duplicate':
        ci = exp_names.index(tname) if not case['to_end'] else len(exp_names) - 1
        c = copy.deepcopy(out_desc['resources'][ci])
        o = in_by_name[src]
        if c['path'] != (case['target_path'] or tname + '.csv'):
            raise Violation('duplicate:copy-path', {'got': c['path']})
        c['name'], c['path'] = o['name'], o['path']
        if schema_edit is not None and ci == schema_edit[0]:
            o = copy.deepcopy(o)
            o['schema']['fields'] = [f for f in o['schema']['fields'] if f['name'] != schema_edit[1]]
        if c != o:
            raise Violation('duplicate:copy-descriptor', {'got': c, 'expected': o})
    if op == 'concat':
        ti = idxs[0]
        got_f = sorted(n for n, _ in schema_sig(out_desc, ti))
        if got_f != sorted(case['fields']):
            raise Violation('concat:target-fields', {'got': got_f, 'expected': sorted(case['fields'])})
        tpk = out_desc['resources'][ti]['schema'].get('primaryKey', [])
        tpk = tpk if isinstance(tpk, list) else [tpk]
        if not set(tpk) <= set(got_f) or (tpk and not any(r.get('pk') for r in pkg)):
            raise Violation('concat:target-primary-key', {'got': tpk, 'target_fields': got_f})
    # conservation of tagged rows (nothing lost / invented) for ops that only move rows
    if op in ('delete', 'duplicate') or (op == 'append'):
        tags_in = sorted(r['_tag'] for t in tables for r in t)
        tags_out = sorted(r['_tag'] for t in out_rows for r in t if '_tag' in r and (r['_tag'] or '').count('#') == 1)
        if op == 'delete':
            exp_tags = sorted(r['_tag'] for i, t in enumerate(tables) if i not in affected for r in t)
        elif op == 'duplicate':
            exp_tags = sorted(tags_in + [r['_tag'] for r in tables[affected[0]]])
        else:
            exp_tags = tags_in + (sorted(r['_tag'] for i in select(case['sel'], [x['name'] for x in case['sub']])
                                         for r in case['sub'][i]['rows']) if case.get('mode') == 'load_tuple' else [])
            exp_tags = sorted(exp_tags)
        if tags_out != exp_tags:
            raise Violation('%s:tag-conservation' % op, {'n_out': len(tags_out), 'n_expected': len(exp_tags)})
    n = len(names)
    nontrivial = big or (n >= 3 and any(0 < i < n - 1 for i in affected)) or \
        any(len(tables[i]) == 0 for i in affected if i < n) or (op == 'append' and len(names) >= 1 and case['mode'] != 'rename')
    if big:
        classes.append('big')
    if case.get('seq'):
        classes.append('sequential-source')
    return Info(nontrivial=bool(nontrivial), classes=classes)
