"""C11 - join computes the relational join with the documented aggregates.

Oracle: dict-of-lists reference join written from PROCESSORS.md (keys rendered with str.format;
aggregates over the non-null source values of the matching rows)."""
import copy
import decimal
import fractions
import collections

from hypothesis import strategies as st

from vlib import gen
from vlib.compare import val_eq, schema_sig
from vlib.kernel import Violation, Info, run_steps, unexpected, dataflows, root_cause

PID = 'C11'
LEVEL = 'exploration'
RULE = ('cases = source/target tables of 0-12 rows (keys from a small pool incl. null, duplicates, renderings that collide) '
        'x key as field list / format string / row number x mode (inner, half-outer, full-outer) x per-field aggregator '
        '(all 12) x source_delete x "*" wildcard x join_with_self; sparse: 10241-10400 distinct keys (KVFile spills to '
        'SQLite); non-trivial: some key has >=2 source rows and >=1 row is unmatched on either side; distinct by case hash')
ASSUMPTIONS = [
    'sum/avg/median only over numeric fields (int/Decimal, no float mixing); min/max over one scalar type; '
    'counters over strings; set over hashable scalars',
    'two rows match iff their keys render to the same string (docs: keys are Python format strings)',
    'full-outer extra rows and deduplication output are compared as multisets (their order is not documented)',
    'a joined field that reuses an existing target field name has the same type',
]
BUDGET = {'quick': dict(examples=3200, shards=16, seconds=70),
          'thorough': dict(examples=100000, shards=16, seconds=1200)}

# the joined resources have names with a '.'; bystanders have names that differ only at that character
SRC, TGT = 's.rc', 't.gt'
KEY_STR = ['a', 'b', 'a:b', 'c', 'b:c', '', 'None', 'é']
KEY_INT = [0, 1, 2, 10]
# number keys that are equal as numbers but render differently ('1' / '1.0' / '1.00'): different keys by the documented rule
KEY_NUM = [decimal.Decimal(x) for x in ['1', '1.0', '1.00', '2.5', '2.50', '0', '-0', '10']]
AGGS = ['sum', 'avg', 'median', 'max', 'min', 'first', 'last', 'count', 'any', 'set', 'array', 'counters']
NUMERIC_ONLY = {'sum', 'avg', 'median'}


def _keyvals(t):
    pool = KEY_STR if t == 'string' else KEY_NUM if t == 'number' else KEY_INT
    return st.one_of(*([st.sampled_from(pool)] * 6 + [st.none()]))


VAL_FIELDS = [('v_int', 'integer'), ('v_num', 'number'), ('v_str', 'string'), ('v_bool', 'boolean'), ('v_date', 'date')]


def _val(t):
    if t == 'integer':
        return st.one_of(st.none(), st.integers(-3, 3), st.sampled_from([0, 10 ** 12]))
    if t == 'number':
        return st.one_of(st.none(), st.integers(-300, 300).map(lambda i: decimal.Decimal(i) / 100),
                         st.sampled_from([decimal.Decimal('0'), decimal.Decimal('1E+3')]))
    if t == 'string':
        return st.one_of(st.none(), st.sampled_from(['', 'x', 'y', 'xy', 'é', 'x,y']))
    if t == 'boolean':
        return st.one_of(st.none(), st.booleans())
    return st.one_of(st.none(), gen.dates())


@st.composite
def small_case(draw):
    ktypes = [draw(st.sampled_from(['string', 'integer', 'string', 'integer', 'number'])) for _ in range(2)]
    nk = draw(st.integers(1, 2))
    kform = draw(st.sampled_from(['list', 'fmt', 'fmt-lit', 'rownum-list', 'rownum-fmt', 'list', 'fmt', 'fmt-conv', 'fmt-spec',
                                  'rownum-mixed']))
    if kform.startswith('rownum'):
        nk = 1
    sk = ['sk1', 'sk2'][:nk]
    tk = draw(st.sampled_from([['tk1', 'tk2'], ['sk1', 'sk2'], ['zk1', 'ak2']]))[:nk]
    if kform == 'list':
        skey, tkey = list(sk), list(tk)
    elif kform == 'fmt':
        sep = draw(st.sampled_from([':', '|', '']))
        skey, tkey = sep.join('{%s}' % k for k in sk), sep.join('{%s}' % k for k in tk)
    elif kform == 'fmt-lit':
        skey, tkey = 'K-' + '/'.join('{%s}' % k for k in sk), 'K-' + '/'.join('{%s}' % k for k in tk)
    elif kform == 'fmt-conv':
        skey, tkey = ':'.join('{%s!s}' % k for k in sk), ':'.join('{%s!s}' % k for k in tk)
    elif kform == 'fmt-spec':
        # a format spec needs non-null integers
        ktypes[0] = ktypes[1] = 'integer'
        skey, tkey = 'C-' + '-'.join('{%s:03d}' % k for k in sk), 'C-' + '-'.join('{%s:03d}' % k for k in tk)
    elif kform == 'rownum-mixed':
        skey, tkey = '{%s}@{#}' % sk[0], '{%s}@{#}' % tk[0]
    elif kform == 'rownum-list':
        skey, tkey = ['#'], ['#']
    else:
        skey, tkey = '{#}', draw(st.sampled_from(['{#}', '{tk1}']))
        if tkey == '{tk1}':
            tk = ['tk1']
            ktypes[0] = 'integer'
    n_vals = draw(st.integers(1, 4))
    vals = draw(st.lists(st.sampled_from(VAL_FIELDS), min_size=n_vals, max_size=n_vals, unique=True))
    sfields = [{'name': k, 'type': t} for k, t in zip(['sk1', 'sk2'], ktypes)] + \
              [{'name': n, 'type': t} for n, t in vals]
    tfields = [{'name': k, 'type': t} for k, t in zip(tk if len(tk) == 2 else tk + [{'tk1': 'tk2', 'sk1': 'sk2', 'zk1': 'ak2'}[tk[0]]], ktypes)] + \
              [{'name': 't_own', 'type': 'string'}]
    reuse = draw(st.booleans()) and any(n == 'v_str' for n, _ in vals)
    if reuse:
        tfields.append({'name': 'v_str', 'type': 'string'})

    def rows(flds, n):
        out = []
        for _ in range(n):
            r = {}
            for f in flds:
                if f['name'] in ('sk1', 'sk2', 'tk1', 'tk2', 'zk1', 'ak2'):
                    r[f['name']] = draw(_keyvals(f['type']))
                    if kform == 'list' and nk == 2 and isinstance(r[f['name']], str):
                        # how the values of a LIST key are combined is not documented: values are chosen so that distinct
                        # value tuples stay distinct however they are joined (format-string keys spell their rendering out)
                        r[f['name']] = r[f['name']].replace(':', ';')
                    if kform == 'fmt-spec' and r[f['name']] is None:
                        r[f['name']] = 7
                elif f['name'] == 't_own':
                    r[f['name']] = draw(st.sampled_from(['p', 'q', None]))
                else:
                    r[f['name']] = draw(_val(f['type']))
            out.append(r)
        return out
    srows = rows(sfields, draw(st.integers(0, 12)))
    trows = rows(tfields, draw(st.integers(0, 8)))
    # field specs
    specs = {}
    wildcard = draw(st.integers(0, 5)) == 0
    # (no field specs at all = join used as a filter / existence check: 'fields' defaults to {})
    for i in range(draw(st.integers(0 if (wildcard or draw(st.integers(0, 7)) == 0) else 1, 4))):
        n, t = draw(st.sampled_from(vals))
        allowed = [a for a in AGGS if
                   (a not in NUMERIC_ONLY or t in ('integer', 'number')) and
                   (a not in ('min', 'max') or t in ('integer', 'number', 'string', 'date')) and
                   (a != 'counters' or t == 'string')]
        agg = draw(st.sampled_from(allowed + [None]))
        spec = {}
        tname = 'j%d' % i
        form = draw(st.sampled_from(['named', 'named', 'same']))
        if form == 'same':
            tname = n
            if n == 'v_str' and reuse and agg in ('count', 'set', 'array', 'counters', None):
                pass
        else:
            spec['name'] = n
        if agg == 'count':
            # count without a name counts rows; with an explicit name it counts that field's non-null values.
            # (an implicit name that happens to equal a source field is ambiguous in the docs: not generated)
            tname = 'cnt%d' % i
            spec['name'] = n
            if draw(st.booleans()):
                spec.pop('name', None)
        if tname == 'v_str' and reuse and agg in ('count', 'set', 'array', 'counters'):
            tname = 'j%d' % i
            spec['name'] = n
        if agg is not None:
            spec['aggregate'] = agg
        if tname in specs:
            continue
        specs[tname] = spec if (spec or draw(st.booleans())) else None
    if wildcard:
        star_aggs = [{}, {'aggregate': 'first'}, {'aggregate': 'last'}, None]
        if tk[0] == 'tk1' and not reuse:
            star_aggs.append({'aggregate': 'array'})     # type-changing aggregate only when no name is reused
        specs['*'] = draw(st.sampled_from(star_aggs))
    mode = draw(st.sampled_from(['inner', 'half-outer', 'full-outer']))
    dedup = draw(st.integers(0, 5)) == 0
    if dedup and (kform.startswith('rownum')):
        dedup = False
    return {'size': 'small', 'sfields': sfields, 'tfields': tfields, 'srows': srows, 'trows': trows,
            'skey': skey, 'tkey': tkey, 'specs': specs, 'mode': mode,
            'source_delete': draw(st.booleans()), 'dedup': dedup, 'src_head': draw(st.integers(0, 2)) == 0,
            'bystanders': draw(st.lists(st.sampled_from(['front', 'middle', 'end']), max_size=2, unique=True))}


@st.composite
def big_case(draw):
    return {'size': 'big', 'n': draw(st.integers(10241, 10400)), 'm': draw(st.sampled_from([3, 7])),
            'mode': draw(st.sampled_from(['inner', 'half-outer', 'full-outer'])),
            'agg': draw(st.sampled_from(['sum', 'count', 'array', 'first', 'last', 'max']))}


@st.composite
def _mix(draw, tier):
    if gen.rare(draw, 20 if tier == 'thorough' else 4):
        return draw(big_case())
    return draw(small_case())


def cases(tier):
    return _mix(tier)


def expand_big(c):
    n, m = c['n'], c['m']
    sfields = [{'name': 'sk1', 'type': 'integer'}, {'name': 'sk2', 'type': 'integer'}, {'name': 'v_int', 'type': 'integer'}]
    tfields = [{'name': 'sk1', 'type': 'integer'}, {'name': 'sk2', 'type': 'integer'}, {'name': 't_own', 'type': 'string'}]
    srows = [{'sk1': (i * 7919) % n, 'sk2': 0, 'v_int': i % 11} for i in range(n)] + \
            [{'sk1': i * m, 'sk2': 0, 'v_int': 100 + i} for i in range(0, 50)]
    trows = [{'sk1': (i * 31) % (n + 40), 'sk2': 0, 't_own': 'p'} for i in range(0, 400)]
    return {'size': 'big', 'sfields': sfields, 'tfields': tfields, 'srows': srows, 'trows': trows,
            'skey': ['sk1'], 'tkey': ['sk1'], 'specs': {'j0': {'name': 'v_int', 'aggregate': c['agg']}},
            'mode': c['mode'], 'source_delete': True, 'dedup': False, 'bystanders': []}


# ------------------------------------------------------------------ reference model
def render(spec, row, num):
    if isinstance(spec, list):
        spec = ':'.join('{%s}' % k for k in spec)
    return spec.format(**dict(row, **{'#': num}))


def key_fields(spec):
    import re
    if isinstance(spec, list):
        return list(spec)
    return [k.split('!')[0].split(':')[0] for k in re.findall(r'\{(.*?)\}', spec)]


def frac(x):
    return fractions.Fraction(x)


def aggregate(agg, values, n_rows, has_name):
    """values: non-null source values of the matching rows, in order."""
    if agg == 'count':
        return len(values) if has_name else n_rows
    if agg in ('set',):
        return ('set', list(values))
    if agg == 'array':
        return list(values)
    if agg == 'counters':
        return ('counters', collections.Counter(values))
    if not values:
        return None
    if agg == 'sum':
        return sum((frac(v) for v in values), frac(0))
    if agg == 'avg':
        return sum((frac(v) for v in values), frac(0)) / len(values)
    if agg == 'median':
        s = sorted(values)
        k = len(s)
        return frac(s[k // 2]) if k % 2 else (frac(s[k // 2 - 1]) + frac(s[k // 2])) / 2
    if agg == 'max':
        return max(values)
    if agg == 'min':
        return min(values)
    if agg == 'first':
        return values[0]
    if agg == 'last':
        return values[-1]
    if agg == 'any':
        return ('any', list(values))
    raise AssertionError(agg)


def agg_eq(got, exp):
    if isinstance(exp, tuple) and exp[0] == 'set':
        if not isinstance(got, list):
            return False
        return len(got) == len(set(map(repr, exp[1]))) and all(any(val_eq(g, e) for e in exp[1]) for g in got) and \
            all(any(val_eq(g, e) for g in got) for e in exp[1])
    if isinstance(exp, tuple) and exp[0] == 'counters':
        if not isinstance(got, list):
            return False
        try:
            g = {tuple(x)[0]: tuple(x)[1] for x in got}
        except Exception:
            return False
        return len(g) == len(got) and g == dict(exp[1])
    if isinstance(exp, tuple) and exp[0] == 'any':
        if not exp[1]:
            return got is None
        return any(val_eq(got, e) for e in exp[1])
    return val_eq(got, exp)


def expanded_specs(c):
    """Field specs after defaults and '*' expansion: {target_name: (source_name, agg, explicit_name)}."""
    specs = {}
    raw = copy.deepcopy(c['specs'])
    star = raw.pop('*', 'absent')
    for t, s in raw.items():
        s = s or {}
        specs[t] = (s.get('name', t), s.get('aggregate', 'any'), 'name' in s)
    if star != 'absent':
        star = star or {}
        used = {v[0] for v in specs.values()}
        for f in c['sfields']:
            if f['name'] not in used and f['name'] not in specs:
                specs[f['name']] = (f['name'], star.get('aggregate', 'any'), True)
    return specs


def model(c):
    specs = expanded_specs(c)
    index = collections.OrderedDict()
    for i, r in enumerate(c['srows'], start=1):
        index.setdefault(render(c['skey'], r, i), []).append(r)
    sfield_names = [f['name'] for f in c['sfields']]

    def aggs(rows):
        out = {}
        for t, (src, agg, explicit) in specs.items():
            vals = [r.get(src) for r in rows if r.get(src) is not None]
            has_name = explicit and src in sfield_names
            out[t] = aggregate(agg, vals, len(rows), has_name)
        return out
    if c['dedup']:
        return [aggs(rows) for rows in index.values()], [], specs
    out = []
    used = set()
    for i, r in enumerate(c['trows'], start=1):
        k = render(c['tkey'], r, i)
        if k in index:
            used.add(k)
            new = dict(r)
            new.update(aggs(index[k]))
            out.append(new)
        elif c['mode'] == 'inner':
            continue
        else:
            new = dict(r)
            for t in specs:
                new.setdefault(t, None)
            out.append(new)
    tail = []
    if c['mode'] == 'full-outer':
        tkf, skf = key_fields(c['tkey']), key_fields(c['skey'])
        for k, rows in index.items():
            if k not in used:
                new = aggs(rows)
                for a, b in zip(tkf, skf):
                    if a != '#':
                        new[a] = rows[-1].get(b)
                tail.append(new)
    return out, tail, specs


def _scalar(v):
    """Bucket component: the value if it is a definite scalar, else a wildcard."""
    if isinstance(v, tuple) and v[0] == 'any' and len(v[1]) >= 1 and all(repr(x) == repr(v[1][0]) for x in v[1]):
        v = v[1][0]
    if v is None or isinstance(v, (str, int, bool)):
        return repr(v)
    return None


def match_unordered(got_rows, exp_rows, declared, sig):
    """Multiset matching of unordered output against expected rows that may contain 'any of' placeholders:
    a maximum bipartite matching (augmenting paths), bucketed on the first key field to stay fast on big cases."""
    bf = next((f for f in ('sk1', 'tk1', 'zk1') if f in declared), None)
    if len(exp_rows) <= 400:
        bf = None               # small cases: one global matching (placeholders may stand for any key value)
    groups = collections.defaultdict(lambda: ([], []))
    for e in exp_rows:
        k = _scalar(e.get(bf)) if bf else None
        groups[k if k is not None else '*'][1].append(e)
    for g in got_rows:
        k = _scalar(g.get(bf)) if bf else None
        key = k if (k is not None and k in groups) else '*'
        groups[key][0].append(g)
    for key, (gots, exps) in groups.items():
        if key != '*' and len(gots) == len(exps) == 1:
            if row_match(gots[0], exps[0], declared):
                continue
        adj = [[j for j, e in enumerate(exps) if row_match(g, e, declared)] for g in gots]
        match_e = {}

        def augment(i, seen):
            for j in adj[i]:
                if j in seen:
                    continue
                seen.add(j)
                if j not in match_e or augment(match_e[j], seen):
                    match_e[j] = i
                    return True
            return False
        for i, g in enumerate(gots):
            if not augment(i, set()):
                raise Violation(sig, {'got': g, 'candidates': [_plain(e) for e in exps[:4]]})


def row_match(got, exp, declared):
    for f in declared:
        if f in exp:
            if not agg_eq(got.get(f), exp[f]):
                return False
        elif got.get(f) is not None:
            return False
    return True


def check(case, ctx):
    c = case if case['size'] == 'small' else expand_big(case)
    classes = [c['size'], 'mode:' + c['mode'], 'dedup' if c['dedup'] else 'join']
    kf = key_fields(c['skey'])
    classes.append('key:rownum' if '#' in kf else ('key:list' if isinstance(c['skey'], list) else 'key:fmt'))
    pkg = []
    for pos in ('front',):
        if pos in c['bystanders']:
            pkg.append({'name': 's-rc', 'fields': [{'name': 'q', 'type': 'integer'}], 'rows': [{'q': 1}, {'q': 2}]})
    pkg.append({'name': SRC, 'fields': c['sfields'], 'rows': c['srows']})
    if 'middle' in c['bystanders']:
        pkg.append({'name': 't-gt', 'fields': [{'name': 'q', 'type': 'integer'}], 'rows': [{'q': 3}]})
    if not c['dedup']:
        pkg.append({'name': TGT, 'fields': c['tfields'], 'rows': c['trows']})
    if 'end' in c['bystanders']:
        pkg.append({'name': 'by_end', 'fields': [{'name': 'q', 'type': 'integer'}], 'rows': []})
    desc = gen.descriptor_of(pkg)
    tables = gen.tables_of(pkg)
    exp_rows, exp_tail, specs = model(c)
    for t, (src, agg, _) in specs.items():
        classes.append('agg:' + agg)
    if c['dedup']:
        step = dataflows.join_with_self(SRC, copy.deepcopy(c['skey']), copy.deepcopy(c['specs']))
    else:
        step = dataflows.join(SRC, copy.deepcopy(c['skey']), TGT, copy.deepcopy(c['tkey']),
                              fields=copy.deepcopy(c['specs']), mode=c['mode'], source_delete=c['source_delete'])
    src_head = bool(c.get('src_head')) and not c['dedup'] and not c['source_delete']
    steps = [step]
    if src_head:
        # the source stays in the package and a later step reads only its first row: the join still sees all of it
        def stop_early_on_source(package):
            yield package.pkg
            for res in package:
                if res.res.name == SRC:
                    def first_only(res=res):
                        for r in res:
                            yield r
                            return
                    yield first_only()
                else:
                    yield res
        steps.append(stop_early_on_source)
        classes.append('source-kept-and-read-only-partly-downstream')
    try:
        out_desc, out = run_steps(steps, desc, tables)
    except Exception as e:
        raise unexpected(e, 'join')
    names_in = [r['name'] for r in pkg]
    if c['dedup']:
        exp_names = list(names_in)
    else:
        exp_names = [n for n in names_in if not (n == SRC and c['source_delete'])]
    got_names = [r['name'] for r in out_desc['resources']]
    if got_names != exp_names or len(out) != len(exp_names):
        raise Violation('resources', {'got': got_names, 'expected': exp_names, 'streams': len(out)})
    for i, n in enumerate(got_names):
        if (n.startswith('by_') or n in ('s-rc', 't-gt')) or (n == SRC and not c['dedup']):
            src_rows = pkg[names_in.index(n)]['rows']
            if n == SRC and src_head:
                src_rows = src_rows[:1]
            if out[i] != src_rows:
                raise Violation('bystander-or-source-rows-changed', {'resource': n})
    ti = got_names.index(SRC if c['dedup'] else TGT)
    got = out[ti]
    declared = [f for f, _ in schema_sig(out_desc, ti)]
    for r in got:
        extra = [k for k in r if k not in declared]
        if extra:
            raise Violation('row-has-undeclared-field', {'fields': extra, 'row': r})
    n_main = len(exp_rows)
    if c['dedup']:
        if len(got) != len(exp_rows):
            raise Violation('dedup:row-count', {'got': len(got), 'expected': len(exp_rows)})
        match_unordered(got, exp_rows, declared, 'dedup:row-values')
    else:
        if len(got) != n_main + len(exp_tail):
            raise Violation('%s:row-count' % c['mode'], {'got': len(got), 'expected_main': n_main,
                                                        'expected_extra': len(exp_tail)})
        for g, e in zip(got[:n_main], exp_rows):
            if not row_match(g, e, declared):
                bad = [f for f in declared if f in e and not agg_eq(g.get(f), e[f])]
                aggn = specs.get(bad[0], (None, 'target-field', None))[1] if bad else '?'
                raise Violation('value:%s' % aggn, {'field': bad[:1], 'got': g, 'expected': _plain(e)})
        match_unordered(got[n_main:], exp_tail, declared, 'full-outer:extra-row')
    # declared types of the joined fields
    types = dict(schema_sig(out_desc, ti))
    stypes = {f['name']: f['type'] for f in c['sfields']}
    for t, (src, agg, _) in specs.items():
        if t not in types:
            raise Violation('schema:joined-field-missing', {'field': t})
        want = {'count': 'integer', 'set': 'array', 'array': 'array', 'counters': 'array'}.get(agg)
        if want is None and agg not in ('avg', 'median'):
            want = stypes.get(src)
        if want is not None and types[t] != want:
            raise Violation('schema:joined-field-type', {'field': t, 'agg': agg, 'got': types[t], 'expected': want})
    idx = collections.Counter(render(c['skey'], r, i) for i, r in enumerate(c['srows'], start=1))
    multi = any(v >= 2 for v in idx.values())
    tkeys = {render(c['tkey'], r, i) for i, r in enumerate(c['trows'], start=1)} if not c['dedup'] else set(idx)
    unmatched = bool(set(idx) - tkeys) or bool(tkeys - set(idx))
    return Info(nontrivial=multi and (unmatched or c['dedup']), classes=classes)


def _plain(e):
    out = {}
    for k, v in e.items():
        if isinstance(v, tuple):
            v = [v[0], list(v[1].items()) if isinstance(v[1], dict) else v[1]]
        if isinstance(v, fractions.Fraction):
            v = float(v)
        out[k] = v
    return out
