"""C06 - row-wise pipelines stream with bounded look-ahead.

Oracle: an invariant over the execution history.  Counting sources tag every row with its provenance
(source, index); a terminal tap computes at every delivery  look-ahead = rows pulled from that source
- (index of the delivered row + 1).  Invariant: the maximum look-ahead is <= SAMPLE_SIZE (100) + 64 for
every source at every delivery, and it does not grow when the stream gets longer."""
import copy
import os

from hypothesis import strategies as st

from vlib import gen, gen_programs as gp
from vlib.kernel import Violation, Info, unexpected, dataflows, quiet, Flow

PID = 'C06'
LEVEL = 'exploration'
RULE = ('cases = pipelines of 1-6 steps from the non-buffering set (field edits, set_type/validate, filter_rows, unpivot, '
        'concatenate, printer, dump_to_path/zip, stream, first-run checkpoint, user row/rows functions, update_*) x 1-2 '
        'counting sources given as generator / (descriptor, iterators) tuple load / sources() / load() of a file through a row-counting tabulator parser (x infer_strategy) x a column that is null for the first 0/50/150/all rows x stream lengths N1 < N2 '
        '(quick 300 & 1500; thorough up to 100000); plus "early stop" pipelines (limit_rows / a rows function returning after K '
        'rows over a 5000-row source: the source is read at most K + constant rows); non-trivial: N2 >= 1000 and >= 2 steps; distinct by (case hash)')
ASSUMPTIONS = [
    'look-ahead is measured at row-iterator level (rows pulled from the Python source), not bytes read by a file parser',
    'the constant allows the inference sample (100 rows for iterables, 1000 rows for load() of a file) plus 64 rows of fixed batching',
]
BUDGET = {'quick': dict(examples=960, shards=16, seconds=80),
          'thorough': dict(examples=6000, shards=16, seconds=1200)}

KINDS = ['add_field', 'add_computed', 'delete_fields', 'select_fields', 'rename_fields', 'find_replace', 'set_type', 'validate',
         'filter_rows', 'unpivot', 'concatenate', 'delete_resource', 'concatenate', 'set_pk_dedupe', 'printer', 'dump_to_path', 'dump_to_zip', 'stream_file', 'checkpoint',
         'row_fn', 'rows_fn', 'update_resource', 'update_schema', 'update_package', 'update_stats', 'finalizer']
BOUND = 100 + 64
FIELDS = [{'name': '_p', 'type': 'integer'}, {'name': 'id', 'type': 'integer'}, {'name': 'g', 'type': 'integer'},
          {'name': 'txt', 'type': 'string'}, {'name': 'n1', 'type': 'integer'}]


@st.composite
def cases_(draw, tier):
    n_src = draw(st.integers(1, 3))
    form = draw(st.sampled_from(['generator', 'load_tuple', 'sources', 'load_file', 'sized_iterable', 'sql_query', 'unstream_file']))
    keep = list(range(n_src))
    if form == 'load_tuple' and n_src >= 2 and draw(st.booleans()):
        # load((descriptor, iterators), resources=[...]) selecting only some of the resources (the first one always)
        keep = [0] + [i for i in range(1, n_src) if draw(st.booleans())]
    pkg = [{'name': 'res_%d' % (i + 1), 'fields': copy.deepcopy(FIELDS), 'rows': []} for i in keep]
    gp.PROTECTED.add('_p')
    try:
        prog = draw(gp.programs(1, 6, kinds=KINDS, pkg=pkg, favour_mutators=False))
    finally:
        gp.PROTECTED.discard('_p')
    for s in prog['steps']:
        if s['k'] == 'rows_fn' and s['fn'] == 'swallow':
            s['fn'] = 'identity'
    sizes = [300, 1500] if tier == 'quick' else draw(st.sampled_from([[300, 2000], [1000, 20000], [2000, 100000]]))
    if form in ('load_file', 'sql_query') and tier == 'quick':
        sizes = [1500, 4000]          # load() samples 1000 rows for inference
    return {'n_src': n_src, 'steps': prog['steps'], 'source_form': form, 'sizes': sizes, 'keep': keep,
            # a column that stays null for the first rows of the stream (inference must not wait for a value)
            'null_prefix': draw(st.sampled_from([0, 0, 50, 150, 10 ** 9])),
            'infer': draw(st.sampled_from([None, 'full', 'pytypes'])),
            # dump_to_sql right behind the sources, writing in batches of the given size (0 = row by row)
            'to_sql': draw(st.sampled_from([None, None, None, 0, 1, 2, 1000]))}


NON_DROPPING = ['add_field', 'add_computed', 'select_fields', 'rename_fields', 'find_replace', 'set_type', 'validate', 'printer',
                'dump_to_path', 'dump_to_zip', 'stream_file', 'update_resource', 'update_schema', 'update_package', 'update_stats']


@st.composite
def early_stop_case(draw, tier):
    """A pipeline that stops asking for rows after K of them (limit_rows, or a rows function that returns early):
    the source must not be read (much) beyond the K-th row."""
    pkg = [{'name': 'res_1', 'fields': copy.deepcopy(FIELDS), 'rows': []}]
    gp.PROTECTED.add('_p')
    try:
        prog = draw(gp.programs(0, 4, kinds=NON_DROPPING, pkg=pkg, favour_mutators=False))
    finally:
        gp.PROTECTED.discard('_p')
    steps = prog['steps']
    k = draw(st.sampled_from([1, 10, 25, 150]))
    how = draw(st.sampled_from(['limit_rows', 'head']))
    if how == 'head':
        steps.insert(draw(st.integers(0, len(steps))), {'k': 'rows_fn', 'fn': 'head', 'n': k, 'form': 'def'})
    return {'early_stop': how, 'k': k, 'n_src': 1, 'steps': steps,
            'source_form': 'load_tuple' if how == 'limit_rows' else draw(st.sampled_from(['generator', 'load_tuple'])),
            'sizes': [5000 if tier == 'quick' else 50000]}


@st.composite
def _mix(draw, tier):
    if gen.rare(draw, 150):
        return draw(early_stop_case(tier))
    return draw(cases_(tier))


def cases(tier):
    return _mix(tier)


SQL_COUNTER = {'pulled': None, 'installed': False}


def _install_sql_counter():
    """Every SQLite connection opened through SQLAlchemy in this process gets the counting function."""
    if SQL_COUNTER['installed']:
        return
    import sqlalchemy
    from sqlalchemy import event
    from sqlalchemy.engine import Engine

    def cnt(p):
        pulled = SQL_COUNTER['pulled']
        if pulled is not None and p is not None:
            pulled[p // 10 ** 7] += 1
        return p

    @event.listens_for(Engine, 'connect')
    def _on_connect(dbapi_con, rec):
        try:
            dbapi_con.create_function('dfverif_cnt', 1, cnt)
        except Exception:
            pass
    SQL_COUNTER['installed'] = True


def run(case, n, ctx):
    pulled = [0] * case['n_src']
    delivered_last = [0] * case['n_src']        # index+1 of the last delivered row per source
    worst = {'la': 0, 'at': None}
    deliveries = [0]

    def source(s):
        for i in range(n):
            pulled[s] += 1
            yield {'_p': s * 10 ** 7 + i, 'id': i + 1, 'g': i % 3 + 1, 'txt': 's%d' % (i % 17),
                   'n1': (i % 11) if i >= case.get('null_prefix', 0) else None}

    def tap(rows):
        for r in rows:
            p = r.get('_p')
            deliveries[0] += 1
            if isinstance(p, int):
                cur, i = divmod(p, 10 ** 7)
                delivered_last[cur] = max(delivered_last[cur], i + 1)
                # rows read ahead of the row being delivered (its own source), and rows already read from
                # sources whose resources come later in the package
                for s in range(cur, case['n_src']):
                    la = pulled[s] - (delivered_last[s] if s == cur else 0)
                    if la > worst['la']:
                        worst['la'] = la
                        worst['at'] = {'source': s, 'delivering_source': cur, 'pulled': pulled[s],
                                       'delivered_up_to': delivered_last[s]}
            yield r
    env = gp.Env(ctx, 'n%d' % n)
    unpatch = []
    steps = [gp.build(s, env) for s in case['steps']]
    form = case['source_form']
    if case.get('to_sql') is not None:
        steps.insert(0, dataflows.dump_to_sql({'t1': {'resource-name': 'res_1'}},
                                              engine='sqlite:///' + os.path.join(ctx.tmpdir(), 'c06.sqlite'),
                                              batch_size=case['to_sql']))
    if form == 'generator':
        srcs = [source(s) for s in range(case['n_src'])]
    elif form == 'sized_iterable':
        # a lazy dataset object: iterable, knows its length, produces its rows on demand
        class Sized:
            def __init__(self, s_):
                self.s_ = s_

            def __iter__(self):
                return source(self.s_)

            def __len__(self):
                return n
        srcs = [Sized(s) for s in range(case['n_src'])]
    elif form == 'sources':
        srcs = [dataflows.sources(*[source(s) for s in range(case['n_src'])])]
    elif form == 'load_file':
        # load() of a "file" whose tabulator parser is supplied by the harness and counts the rows it hands out
        from tabulator import Parser
        srcs = []
        for s_ in range(case['n_src']):
            def make(s_=s_):
                class CountingParser(Parser):
                    options = []

                    def __init__(self, loader, force_parse=False, **options):
                        self._closed = True

                    @property
                    def closed(self):
                        return self._closed

                    def open(self, source, encoding=None):
                        self._closed = False
                        self._rows = self._iter()

                    def close(self):
                        self._closed = True

                    def reset(self):
                        pass

                    @property
                    def encoding(self):
                        return 'utf-8'

                    @property
                    def extended_rows(self):
                        return self._rows

                    def _iter(self):
                        yield (1, None, ['_p', 'id', 'g', 'txt', 'n1'])
                        for k_, row in enumerate(source(s_)):
                            yield (k_ + 2, None, [row['_p'], row['id'], row['g'], row['txt'], row['n1']])
                return CountingParser
            kw = {}
            if case.get('infer'):
                L = dataflows.load
                kw['infer_strategy'] = {'full': L.INFER_FULL, 'strings': L.INFER_STRINGS, 'pytypes': L.INFER_PYTHON_TYPES}[case['infer']]
            srcs.append(dataflows.load('res_%d.counting' % (s_ + 1), name='res_%d' % (s_ + 1), format='counting',
                                       custom_parsers={'counting': make()}, **kw))
    elif form == 'unstream_file':
        # unstream(<file name>) - what a checkpoint does on every run after the first - over a stream file written by the
        # harness; the file object the step opens is a proxy that counts the row lines handed out
        import json as _json
        path = os.path.join(ctx.tmpdir(), 'stream.ndjson')
        desc_ = gen.descriptor_of([{'name': 'res_%d' % (s_ + 1), 'fields': FIELDS, 'rows': []} for s_ in range(case['n_src'])])
        with open(path, 'w') as f_:
            f_.write(_json.dumps(desc_) + '\n')
            for s_ in range(case['n_src']):
                for i in range(n):
                    f_.write(_json.dumps({'_p': s_ * 10 ** 7 + i, 'id': i + 1, 'g': i % 3 + 1, 'txt': 's%d' % (i % 17),
                                          'n1': (i % 11) if i >= case.get('null_prefix', 0) else None}) + '\n')
                f_.write('\n')

        class CountingFile:
            def __init__(self, fh):
                self.fh = fh
                self.res = -1           # -1: the descriptor line has not been read yet

            def _count(self, line):
                if self.res < 0:
                    self.res = 0
                elif line.strip() == '':
                    self.res += 1
                elif self.res < len(pulled):
                    pulled[self.res] += 1

            def readline(self, *a):
                line = self.fh.readline(*a)
                if line != '':
                    self._count(line)
                return line

            def read(self, *a):
                data = self.fh.read(*a)
                for line in data.splitlines():
                    self._count(line)
                return data

            def __iter__(self):
                return self

            def __next__(self):
                line = self.readline()
                if line == '':
                    raise StopIteration
                return line

            def close(self):
                self.fh.close()

            def __enter__(self):
                return self

            def __exit__(self, *a):
                self.fh.close()
                return False

            def __getattr__(self, name):
                return getattr(self.fh, name)
        import sys as _sys
        umod = _sys.modules['dataflows.processors.unstream']
        umod.open = lambda *a, **kw: CountingFile(open(*a, **kw))
        unpatch.append(lambda: umod.__dict__.pop('open', None))
        srcs = [dataflows.unstream(path)]
    elif form == 'sql_query':
        # load(format='sql') of a query over an SQLite table; a user-defined SQL function counts the rows the database hands out
        import sqlite3
        _install_sql_counter()
        srcs = []
        for s_ in range(case['n_src']):
            dbf = os.path.join(ctx.tmpdir(), 'src%d.sqlite' % s_)
            con = sqlite3.connect(dbf)
            con.execute('create table t (_p integer, id integer, g integer, txt text, n1 integer)')
            con.executemany('insert into t values (?,?,?,?,?)',
                            [(s_ * 10 ** 7 + i, i + 1, i % 3 + 1, 's%d' % (i % 17), (i % 11) if i >= case.get('null_prefix', 0) else None)
                             for i in range(n)])
            con.commit()
            con.close()
            SQL_COUNTER['pulled'] = pulled
            srcs.append(dataflows.load('sqlite:///' + dbf, name='res_%d' % (s_ + 1), format='sql',
                                       query='select dfverif_cnt(_p) as _p, id, g, txt, n1 from t order by rowid'))
    else:
        desc = gen.descriptor_of([{'name': 'res_%d' % (s + 1), 'fields': FIELDS, 'rows': []} for s in range(case['n_src'])])
        kw = {'limit_rows': case['k']} if case.get('early_stop') == 'limit_rows' else {}
        if case.get('keep') and len(case['keep']) < case['n_src']:
            kw['resources'] = ['res_%d' % (i + 1) for i in case['keep']]
        srcs = [dataflows.load((desc, [source(s) for s in range(case['n_src'])]), **kw)]
    try:
        with quiet():
            Flow(*srcs, *steps, tap).process()
    finally:
        for u in unpatch:
            u()
    return worst, deliveries[0], list(pulled)


def check_early_stop(case, ctx):
    prog = [s['k'] for s in case['steps']]
    n = case['sizes'][0]
    try:
        worst, delivered, pulled = run(case, n, ctx)
    except Exception as e:
        why = gp.data_dependent_rejection(e)
        if why:
            return Info(rejected=True, classes=['rejected:' + why])
        raise unexpected(e, '/'.join(prog))
    k = min(case['k'], n)
    if delivered != k:
        raise Violation('early-stop:rows-delivered', {'delivered': delivered, 'expected': k, 'program': prog})
    bound = k + BOUND
    idx = next((i for i, s_ in enumerate(case['steps']) if s_['k'] == 'rows_fn' and s_.get('fn') == 'head'), None)
    if idx is not None and any(s_['k'] in ('dump_to_path', 'dump_to_zip', 'stream_file', 'checkpoint') for s_ in case['steps'][:idx]):
        # a dump / stream file in front of the early-stopping step holds the WHOLE resource (C05): it reads on by itself
        if pulled[0] != n:
            raise Violation('early-stop:observer-before-it-did-not-see-the-whole-resource', {'pulled': pulled[0], 'n': n, 'program': prog})
        return Info(nontrivial=True, classes=['early-stop:behind-a-persisting-observer', 'source:' + case['source_form']],
                    extra={'rows_streamed': pulled[0]})
    if pulled[0] > bound:
        raise Violation('early-stop:source-read-far-beyond-the-last-row-asked-for',
                        {'pulled': pulled[0], 'asked_for': k, 'bound': bound, 'how': case['early_stop'], 'program': prog})
    return Info(nontrivial=True, classes=['early-stop:' + case['early_stop'], 'source:' + case['source_form']],
                extra={'rows_streamed': pulled[0]})


def check(case, ctx):
    if case.get('early_stop'):
        return check_early_stop(case, ctx)
    prog = [s['k'] for s in case['steps']]
    classes = ['source:' + case['source_form'], 'sources=%d' % case['n_src']] + sorted({'k:' + k for k in prog})
    results = []
    for n in case['sizes']:
        try:
            worst, delivered, pulled = run(case, n, ctx)
        except Exception as e:
            why = gp.data_dependent_rejection(e)
            if why:
                return Info(rejected=True, classes=['rejected:' + why])
            raise unexpected(e, '/'.join(prog))
        if any(p != n for p in pulled):
            raise Violation('source-not-fully-consumed', {'pulled': pulled, 'n': n, 'program': prog})
        bound = BOUND + (900 if case['source_form'] in ('load_file', 'sql_query') else 0)     # load() samples 1000 rows
        if case.get('to_sql'):
            bound += case['to_sql']                                            # plus one write batch
            classes.append('dump_to_sql:batch=%d' % case['to_sql'])
        elif case.get('to_sql') == 0:
            classes.append('dump_to_sql:row-by-row')
        if worst['la'] > bound:
            raise Violation('look-ahead-exceeds-constant', {'n': n, 'look_ahead': worst['la'], 'bound': bound, 'at': worst['at'],
                                                            'program': prog, 'source_form': case['source_form']})
        results.append((n, worst['la'], delivered))
    (n1, la1, _), (n2, la2, d2) = results[0], results[-1]
    # (only meaningful when the shorter stream is itself longer than the constant: otherwise its look-ahead is capped by n1)
    if n1 > bound and la2 > la1 + 64:
        raise Violation('look-ahead-grows-with-stream-length', {'n1': n1, 'look_ahead1': la1, 'n2': n2, 'look_ahead2': la2,
                                                                'program': prog})
    if d2 == 0:
        classes.append('nothing-delivered')
    return Info(nontrivial=n2 >= 1000 and len(prog) >= 2 and d2 > 0, classes=classes, evals=len(case['sizes']),
                extra={'rows_streamed': sum(r[0] for r in results) * case['n_src']})
