"""C18 - parallelize delivers every row exactly once under every schedule.

The harness owns the schedule (vlib/sched.py): producer thread, N worker processes, collector thread, the
consuming generator and the asynchronous queue feeders are cooperative tasks; a generated list of integers
picks the next enabled task at every queue / start / join operation.  Oracle: the multiset of delivered
rows equals { f(row) applied exactly once for selected rows } + { untouched others }; the generator
terminates; every task ends; no schedule deadlocks.  A small number of runs use the real
multiprocessing implementation (own process group, hard timeout) with the same multiset oracle, which
also validates the shim against reality."""
import os
import sys
import json
import copy
import signal
import subprocess
import collections

from hypothesis import strategies as st

from vlib import gen, sched as vsched
from vlib.kernel import Violation, Info, unexpected, dataflows, quiet, Flow, FeedStep, REPO

PID = 'C18'
LEVEL = 'exploration'
LEVEL_TEXT = ('schedule exploration through a harness-owned deterministic scheduler that models queue semantics: sampled '
              'schedules, plus ALL schedules within k deviations of the default schedule for small configurations '
              '(bounded-exhaustive), plus a few runs of the real multiprocessing implementation')
TECHNIQUE = 'property-based testing over generated schedules with a harness-owned cooperative scheduler (greenlets) replacing mp/threading/queue'
RULE = ('cases = rows 0-30 x predicate pattern (none given / all / some / first selected row late / none selected) x N in 1..4 '
        'workers x a schedule of 0-400 small integers (sampled) + bounded-exhaustive exploration (all schedules within k deviations of the default one for small configurations) x choosing the next enabled task at every scheduling point (put, get, '
        'start, join, feeder flush); sparse: real multiprocessing runs (N 1..4, 0-600 rows). non-trivial: >=10 scheduling '
        'points had >=2 enabled tasks and some worker finished before the producer; distinct by hash of the executed '
        'interleaving (first 400 task switches)')
ASSUMPTIONS = [
    'queue model: mp.Queue pickles on put; one FIFO feeder per (queue, producing task) makes items visible at scheduled '
    'later points; queue.Queue is synchronous; join waits for the task to end (timeouts are not modelled)',
    'faults inside workers (killed process, unpicklable row, raising row function) and upstream errors are outside the '
    'property (upstream errors under parallelize: known finding recorded in DESIGN.md)',
]
EXHAUSTIVE_NOTE = ('bounded-exhaustive part: for each of the listed small configurations (rows 0-3, N 1-2, 4 predicate patterns) ALL '
                   'schedules with at most k deviations from the default schedule are executed (k=1 quick, k<=2 thorough)')
BUDGET = {'quick': dict(examples=4000, shards=8, seconds=80, chunk=100),
          'thorough': dict(examples=200000, shards=16, seconds=1200, chunk=500)}

CASE_CAP = {'quick': 240, 'thorough': 600}     # real multiprocessing runs carry their own 150 s timeout
PREDS = ['none-given', 'all', 'some', 'late', 'none-selected', 'some3']


def row_func(row):
    row['cnt'] = row['cnt'] + 1
    row['v'] = row['v'] * 2
    if isinstance(row.get('tags'), list):
        row['tags'].append('seen')          # a nested value edited in place: exactly once per row, too


def row_func_raising(row):
    if row['id'] % 4 == 0:
        raise ZeroDivisionError('row function fails for this row')     # (before it touches the row)
    row_func(row)


def make_pred(kind, late):
    if kind == 'none-given':
        return None
    if kind == 'all':
        return lambda row: True
    if kind == 'some':
        return lambda row: row['id'] % 2 == 0
    if kind == 'some3':
        return lambda row: row['id'] % 3 == 1
    if kind == 'late':
        return lambda row: row['id'] >= late
    return lambda row: False


def selected(kind, late, rid):
    if kind in ('none-given', 'all'):
        return True
    if kind == 'some':
        return rid % 2 == 0
    if kind == 'some3':
        return rid % 3 == 1
    if kind == 'late':
        return rid >= late
    return False


@st.composite
def cases_(draw):
    real = gen.rare(draw, 1)
    if real:
        return {'mode': 'real', 'n': draw(st.sampled_from([0, 1, 7, 60, 600])), 'N': draw(st.integers(1, 4)),
                'pred': draw(st.sampled_from(PREDS)), 'late': draw(st.integers(0, 40)),
                'slow': draw(st.sampled_from(['none', 'source', 'func', 'consumer']))}
    n = draw(st.sampled_from([0, 1, 2, 3, 5, 8, 13, 30]))
    return {'mode': 'shim', 'n': n, 'N': draw(st.integers(1, 4)), 'pred': draw(st.sampled_from(PREDS)),
            'empty_rows': draw(st.integers(0, 9)) == 0,      # rows of a resource without fields: {}
            'late': draw(st.integers(0, n + 1)),
            'schedule': draw(st.lists(st.integers(0, 7), max_size=400)),
            'two_resources': draw(st.booleans()), 'all_resources': draw(st.booleans()),
            # some rows carry their fields in another insertion order (an upstream step popped and re-added a key);
            # the first row carries a value bigger than a pipe buffer (64 KiB)
            'key_order': draw(st.booleans()), 'blob': draw(st.integers(0, 7)) == 0,
            # rows carry a list value the row function appends to; the row function raises for every 4th row (such a row
            # is still delivered, untouched); more workers than any plausible internal cap
            'nested': draw(st.booleans()), 'raising': draw(st.integers(0, 3)) == 0, 'many_workers': draw(st.integers(0, 15)) == 0}


def cases(tier):
    return cases_()


def enumerate_cases(tier):
    """A fixed set of runs of the REAL multiprocessing implementation (each in its own process group)."""
    out = []
    for N, n, pred, slow in [(1, 7, 'none-given', 'none'), (2, 60, 'some', 'func'), (4, 600, 'late', 'source'),
                             (3, 0, 'all', 'none'), (2, 60, 'none-selected', 'none'), (2, 40, 'all', 'source-stall')]:
        out.append({'mode': 'real', 'n': n, 'N': N, 'pred': pred, 'late': 30, 'slow': slow})
    if tier == 'thorough':
        for N in (1, 2, 3, 4):
            for pred in PREDS:
                out.append({'mode': 'real', 'n': 600, 'N': N, 'pred': pred, 'late': 300, 'slow': 'consumer'})
    # bounded-exhaustive part: every schedule with <= k deviations from the default schedule, per small configuration
    configs = [(n, N, pred) for n in (0, 1, 2, 3) for N in (1, 2) for pred in ('all', 'some', 'late', 'none-selected')]
    for n, N, pred in configs:
        out.append({'mode': 'bounded', 'k': 1, 'n': n, 'N': N, 'pred': pred, 'late': 2, 'two_resources': False})
    if tier == 'thorough':
        for n, N, pred in [(n, N, pred) for n in (1, 2) for N in (1, 2) for pred in ('all', 'some', 'late')]:
            out.append({'mode': 'bounded', 'k': 2, 'n': n, 'N': N, 'pred': pred, 'late': 2, 'two_resources': False})
        out.append({'mode': 'bounded', 'k': 1, 'n': 3, 'N': 3, 'pred': 'all', 'late': 0, 'two_resources': True, 'all_resources': True})
    return out


def expected_rows(n, pred, late):
    out = []
    for i in range(1, n + 1):
        if selected(pred, late, i):
            out.append({'id': i, 'v': i * 2, 'cnt': 1})
        else:
            out.append({'id': i, 'v': i, 'cnt': 0})
    return out


def canon(rows):
    return sorted(json.dumps(r, sort_keys=True) for r in rows)


REAL_SCRIPT = r'''
import sys, json, time
sys.path.insert(0, %(repo)r)
import dataflows
from dataflows import Flow, parallelize
n, N, pred, late, slow = %(n)d, %(N)d, %(pred)r, %(late)d, %(slow)r
def src():
    for i in range(1, n + 1):
        if slow == 'source' and i %% 50 == 0:
            time.sleep(0.01)
        yield {'id': i, 'v': i, 'cnt': 0}
def f(row):
    if slow == 'func' and row['id'] %% 40 == 0:
        time.sleep(0.01)
    row['cnt'] = row['cnt'] + 1
    row['v'] = row['v'] * 2
P = {'none-given': None, 'all': (lambda r: True), 'some': (lambda r: r['id'] %% 2 == 0), 'some3': (lambda r: r['id'] %% 3 == 1),
     'late': (lambda r: r['id'] >= late), 'none-selected': (lambda r: False)}[pred]
def consumer(rows):
    for r in rows:
        if slow == 'consumer' and r['id'] %% 60 == 0:
            time.sleep(0.01)
        yield r
def upstream(row):
    if slow == 'source-stall' and row['id'] == n // 2:
        time.sleep(6.5)          # an upstream step that is slow for a while, in mid-stream
res = Flow(src(), upstream, parallelize(f, num_processors=N, predicate=P), consumer).results(on_error=None)[0]
sys.stdout.write('RESULT ' + json.dumps(res[0] if res else []) + '\n')
sys.stdout.flush()
import os
os._exit(0)
'''


def run_real(case):
    script = REAL_SCRIPT % dict(repo=REPO, n=case['n'], N=case['N'], pred=case['pred'], late=case['late'], slow=case['slow'])
    p = subprocess.Popen([sys.executable, '-c', script], stdout=subprocess.PIPE, stderr=subprocess.DEVNULL,
                         stdin=subprocess.DEVNULL, start_new_session=True)
    try:
        out, _ = p.communicate(timeout=150)
    except subprocess.TimeoutExpired:
        try:
            os.killpg(p.pid, signal.SIGKILL)
        except Exception:
            pass
        p.wait()
        return None, 'timeout'
    finally:
        try:
            os.killpg(p.pid, signal.SIGKILL)
        except Exception:
            pass
    for line in out.decode('utf-8', 'replace').splitlines():
        if line.startswith('RESULT '):
            return json.loads(line[7:]), 'ok'
    return None, 'no-result (exit %s)' % p.returncode


def run_under_scheduler(case, s, classes=None):
    """One execution of parallelize under scheduler `s`; raises Violation when the oracle fails."""
    n, N, pred, late = case['n'], case['N'], case['pred'], case['late']
    exp = expected_rows(n, pred, late)
    classes = classes if classes is not None else []
    fields = [{'name': 'id', 'type': 'integer'}, {'name': 'v', 'type': 'integer'}, {'name': 'cnt', 'type': 'integer'}]
    src_rows = [{'id': i, 'v': i, 'cnt': 0} for i in range(1, n + 1)]
    if case.get('key_order'):
        src_rows = [r if r['id'] % 3 else {'cnt': r['cnt'], 'v': r['v'], 'id': r['id']} for r in src_rows]
        classes.append('rows-with-different-key-order')
    if case.get('raising'):
        for e in exp:
            if e['id'] % 4 == 0 and e['cnt'] == 1:
                e.update(v=e['id'], cnt=0)
        classes.append('row-function-raises-for-some-rows')
    if case.get('nested'):
        fields = fields + [{'name': 'tags', 'type': 'array'}]
        for r, e in zip(src_rows, exp):
            r['tags'] = ['t%d' % r['id']]
            e['tags'] = ['t%d' % r['id']] + (['seen'] if e['cnt'] == 1 else [])
        classes.append('nested-value-edited-in-place')
    if case.get('many_workers'):
        N = 65 + (n % 7)
        classes.append('more-than-64-workers')
    if case.get('blob') and n:
        fields = fields + [{'name': 'blob', 'type': 'string'}]
        for r, e in zip(src_rows, exp):
            r['blob'] = e['blob'] = ('x' * 70000) if r['id'] == 1 else 'y'
        classes.append('row-bigger-than-a-pipe-buffer')
    pkg = [{'name': 'res1', 'fields': fields, 'rows': src_rows}]
    empty = case.get('empty_rows') and pred in ('none-given', 'all', 'none-selected')
    if empty:
        pkg = [{'name': 'res1', 'fields': [], 'rows': [{} for _ in range(n)]}]
        exp = [{} for _ in range(n)]
        classes.append('empty-rows')
    if case['two_resources']:
        pkg.append({'name': 'other', 'fields': fields, 'rows': [{'id': 100 + i, 'v': 1, 'cnt': 0} for i in range(3)]})
    desc, tables = gen.descriptor_of(pkg), gen.tables_of(pkg)
    out = {}

    def consumer():
        step = dataflows.parallelize((lambda row: None) if empty else (row_func_raising if case.get('raising') else row_func),
                                     num_processors=N,
                                     predicate=make_pred(pred, late),
                                     resources=None if case.get('all_resources') else 'res1')
        res, dp, _ = Flow(FeedStep(desc, tables), step).results(on_error=None)
        out['rows'] = res
    try:
        with vsched.patched(s), quiet():
            main = s.run(consumer)
    except vsched.Deadlock as e:
        raise Violation('deadlock', {'error': str(e), 'trace_tail': s.trace[-25:], 'N': N, 'pred': pred, 'rows': n})
    except vsched.StepLimit as e:
        raise Violation('does-not-terminate', {'error': str(e), 'N': N, 'pred': pred, 'rows': n})
    if main.error is not None:
        raise unexpected(main.error, 'parallelize under the scheduler')
    errs = [(t.name, repr(t.error)) for t in s.tasks if t.error is not None]
    if errs:
        raise Violation('task-raised', {'tasks': errs[:3]})
    unfinished = [t.name for t in s.tasks if not t.done and t.feeder is None]
    if unfinished:
        raise Violation('tasks-left-running', {'tasks': unfinished})
    rows = out['rows'][0]
    if canon(rows) != canon(exp):
        if empty:
            raise Violation('rows:empty-rows-lost-or-invented', {'got': len(rows), 'expected': n, 'N': N, 'pred': pred})
        got = collections.Counter(r['id'] for r in rows)
        missing = [i for i in range(1, n + 1) if got[i] == 0][:5]
        dup = [i for i, c in got.items() if c > 1][:5]
        wrong = [r for r in rows if r not in exp][:3]
        kind = 'lost-rows' if missing else 'duplicated-rows' if dup else 'wrong-values'
        raise Violation('rows:' + kind, {'missing': missing, 'duplicated': dup, 'wrong': wrong, 'N': N, 'pred': pred, 'rows': n,
                                         'trace_tail': s.trace[-25:]})
    if case['two_resources']:
        if not case.get('all_resources'):
            if out['rows'][1] != tables[1]:
                raise Violation('bystander-changed', {})
        else:
            # the second resource goes through its own fork/collect cycle
            exp2 = []
            for r in tables[1]:
                applied = selected(pred, late, r['id']) and not empty and not (case.get('raising') and r['id'] % 4 == 0)
                exp2.append({'id': r['id'], 'v': r['v'] * 2, 'cnt': 1} if applied else dict(r))
            if canon(out['rows'][1]) != canon(exp2):
                raise Violation('rows:second-parallelized-resource', {'got': out['rows'][1][:5], 'expected': exp2[:5], 'N': N, 'pred': pred})
    return s


def check_bounded(case, classes):
    """ALL schedules that deviate at most k times from the default schedule (always run the first enabled task),
    for one small configuration: deviation = at decision i take enabled task number c>0 instead."""
    k = case['k']
    runs = 0
    subkeys = []

    def execute(dev):
        nonlocal runs
        s = vsched.Scheduler([], deviations=dict(dev))
        c = dict(case, two_resources=case.get('two_resources', False))
        try:
            run_under_scheduler(c, s, [])
        except Violation as v:
            v.detail = dict(v.detail or {}, deviations=sorted(dev.items()), bounded_k=k)
            raise
        runs += 1
        subkeys.append(json.dumps(sorted(dev.items())))
        return s.branching

    def explore(dev, start, depth):
        b = execute(dev)
        if depth == 0:
            return
        for i in range(start, len(b)):
            for choice in range(1, b[i]):
                nd = dict(dev)
                nd[i] = choice
                explore(nd, i + 1, depth - 1)
    explore({}, 0, k)
    return Info(nontrivial=runs >= 2, classes=classes + ['bounded-k=%d' % k], subkeys=subkeys, evals=runs,
                extra={'bounded_exhaustive_configurations': 1, 'bounded_exhaustive_schedules': runs})


def check(case, ctx):
    n, N, pred, late = case['n'], case['N'], case['pred'], case['late']
    exp = expected_rows(n, pred, late)
    classes = ['mode:' + case['mode'], 'N=%d' % N, 'pred:' + pred, 'rows~%d' % (10 * (n // 10))]
    if case['mode'] == 'real':
        rows, status = run_real(case)
        if status == 'timeout':
            raise Violation('real:did-not-terminate', {'case': case})
        if rows is None:
            raise Violation('real:no-result', {'status': status})
        if canon(rows) != canon(exp):
            raise Violation('real:rows', {'n_got': len(rows), 'n_expected': len(exp)})
        return Info(nontrivial=n > 0 and pred != 'none-selected', classes=classes,
                    extra={'real_multiprocessing_runs': 1, 'traces_validated_against_impl': 1})
    if case['mode'] == 'bounded':
        return check_bounded(case, classes)
    s = vsched.Scheduler(case['schedule'])
    run_under_scheduler(case, s, classes)
    order = s.finish_order
    worker_first = False
    prod = next((i for i, nm in enumerate(order) if nm.startswith('thread') and 'producer' in nm), None)
    for i, nm in enumerate(order):
        if nm.startswith('worker') and (prod is None or i < prod):
            worker_first = True
    nontrivial = s.decisions >= 10 and worker_first
    if worker_first:
        classes.append('worker-finished-before-producer')
    classes.append('decisions~%d' % (20 * (s.decisions // 20)))
    return Info(nontrivial=nontrivial, classes=classes, key=json.dumps(s.trace),
                extra={'scheduling_points_with_a_choice': s.decisions, 'scheduler_steps': s.steps})
