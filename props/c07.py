"""C07 - resuming from a checkpoint reproduces the first run (model-based, histories).

A history is a generated sequence of run / delete(checkpoint) / delete-all operations over a pipeline
with 1-3 chained checkpoints.  Model state = the set of checkpoints that exist.  After every run: the
result equals the first run's (typed rows, strict type/offset equality; descriptor), and the execution
counters show that exactly the steps after the last existing checkpoint ran."""
import os
import copy
import shutil
import decimal
import datetime

from hypothesis import strategies as st

from vlib import gen
from vlib.kernel import Violation, Info, dataflows, quiet, Flow, FeedStep, root_cause, unexpected

PID = 'C07'
LEVEL = 'exploration'
LEVEL_TEXT = ('model-based exploration of run/delete histories (generated as one shrinkable value) against a model of which '
              'checkpoints exist; holds on everything explored')
TECHNIQUE = 'model-based property testing of operation histories (Hypothesis-generated history + reference model of checkpoint existence)'
RULE = ('cases = typed tables (strings incl. unicode/newlines, integers, floats, Decimals, dates, times and naive/zone-aware '
        'datetimes with offsets -23:59..+23:59 incl. microseconds, durations, nested arrays/objects, nulls; 1-2 resources x '
        '0-6 rows) x pipeline with 1-3 chained checkpoints x history of 2-8 operations (run via results()/process(), delete '
        'one checkpoint, delete all); non-trivial: the history contains a resume (run after run) with a non-string typed '
        'value, or run -> delete -> run; distinct by canonical case hash')
ASSUMPTIONS = [
    'object keys do not look like the encoder\'s own type{...} tags; no NaN/Infinity floats; times are naive',
]
BUDGET = {'quick': dict(examples=960, shards=16, seconds=75),
          'thorough': dict(examples=40000, shards=16, seconds=1200)}

TYPES = ['string', 'integer', 'number', 'boolean', 'date', 'time', 'datetime', 'duration', 'array', 'object', 'any']


NAMED_ZONES = [datetime.timezone(datetime.timedelta(hours=3), 'MSK'), datetime.timezone(datetime.timedelta(hours=4), 'MSK'),
               datetime.timezone(datetime.timedelta(hours=8), 'CST'), datetime.timezone(datetime.timedelta(hours=-6), 'CST'),
               datetime.timezone(datetime.timedelta(0), 'UTC'), datetime.timezone(datetime.timedelta(hours=1), 'UTC')]


def value_for(t):
    if t == 'string':
        return gen.text_hard(6, edge_ws=True)
    if t == 'integer':
        return gen.integers_mixed()
    if t == 'number':
        return st.one_of(gen.decimals_mixed(30), gen.floats_finite(), st.sampled_from([decimal.Decimal('1.0'), decimal.Decimal('1.00'), decimal.Decimal('-0')]))
    if t == 'boolean':
        return st.booleans()
    if t == 'date':
        return gen.dates()
    if t == 'time':
        return st.one_of(gen.times(micro=False), gen.times(micro=True))
    if t == 'datetime':
        naive = st.one_of(gen.datetimes(micro=False), gen.datetimes(micro=True))
        aware = st.tuples(st.datetimes(min_value=datetime.datetime(2, 1, 1), max_value=datetime.datetime(9998, 12, 31)),
                          gen.tzinfos(), st.booleans()).map(
            lambda t_: t_[0].replace(tzinfo=t_[1], microsecond=t_[0].microsecond if t_[2] else 0))
        # zone names shared by different offsets (MSK was +4 and is +3; CST is +8 and -6): the offset is what counts
        named = st.tuples(gen.datetimes(micro=False), st.sampled_from(NAMED_ZONES)).map(lambda t_: t_[0].replace(tzinfo=t_[1]))
        return st.one_of(naive, aware, aware, named)
    if t == 'duration':
        return st.one_of(st.sampled_from([datetime.timedelta(microseconds=50), datetime.timedelta(microseconds=1),
                                          datetime.timedelta(days=40000, seconds=3, microseconds=7),
                                          datetime.timedelta(seconds=59, microseconds=999999)]),
                         st.integers(0, 10 ** 7).map(lambda s: datetime.timedelta(seconds=s)),
                         st.tuples(st.integers(0, 400), st.integers(0, 86399)).map(lambda x: datetime.timedelta(days=x[0], seconds=x[1])))
    if t == 'array':
        return st.lists(st.one_of(gen.json_values(), gen.decimals_mixed(10), gen.dates()), max_size=3)
    if t == 'object':
        return st.dictionaries(gen.text_easy(1, 3), st.one_of(gen.json_values(), gen.decimals_mixed(10), gen.dates()), max_size=3)
    return st.one_of(gen.text_easy(), st.integers(-5, 5), gen.dates())


@st.composite
def cases_(draw):
    n_res = draw(st.sampled_from([1, 1, 1, 2, 2, 2, 0]))      # (0: a package that has no resources at all)
    pkg = []
    for i in range(n_res):
        nf = draw(st.sampled_from([1, 2, 3, 4, 1, 2, 3, 0]))       # (0: a resource without fields - its rows are {})
        names = draw(st.lists(st.sampled_from(['a', 'b', 'é', 'x y', 'n', 'when']), min_size=nf, max_size=nf, unique=True))
        flds = [{'name': nm, 'type': draw(st.sampled_from(TYPES))} for nm in names]
        k = draw(st.integers(0, 6))
        rows = []
        for _ in range(k):
            rows.append({f['name']: draw(st.one_of(*([value_for(f['type'])] * 6 + [st.none()]))) for f in flds})
        pkg.append({'name': 'res%d' % (i + 1), 'fields': flds, 'rows': rows})
    n_cp = draw(st.integers(1, 3))
    ops = ['run']
    for _ in range(draw(st.integers(1, 7))):
        ops.append(draw(st.sampled_from(['run', 'run', 'run', 'run-process', ('delete', draw(st.integers(1, n_cp))), 'delete-all',
                                         ('fail-run', draw(st.integers(0, 8)))])))
    # a third of the histories follow a template: run, (run), delete one checkpoint / all, run, (delete another, run)
    if gen.rare(draw, 350):
        which = draw(st.permutations(list(range(1, n_cp + 1))))
        ops = ['run'] + (['run'] if draw(st.booleans()) else []) + [('delete', which[0]), draw(st.sampled_from(['run', 'run-process']))]
        if n_cp > 1 and draw(st.booleans()):
            ops += [('delete', which[1]), 'run']
        if draw(st.booleans()):
            ops += ['delete-all', 'run']
    # prebuilt: every Flow object of the history is constructed up front (before any run / delete happens)
    return {'pkg': pkg, 'n_cp': n_cp, 'ops': ops, 'prebuilt': draw(st.integers(0, 3)) == 0,
            # checkpoint names: plain, or paths that share their last component (daily/load, weekly/load, ...)
            'names': draw(st.sampled_from(['plain', 'plain', 'shared-last-component', 'nested-directories'])),
            # a structural step behind the last checkpoint: it drops / merges resources of the checkpointed stream
            'tail': draw(st.sampled_from([None, None, 'delete_first', 'delete_last', 'concatenate_all', 'head', 'head'])) if n_res >= 2
            else draw(st.sampled_from([None, None, 'head']))}


def cases(tier):
    return cases_()


def strict_eq(a, b):
    if type(a) is not type(b):
        return False
    if isinstance(a, dict):
        return set(a) == set(b) and all(strict_eq(a[k], b[k]) for k in a)
    if isinstance(a, (list, tuple)):
        return len(a) == len(b) and all(strict_eq(x, y) for x, y in zip(a, b))
    if isinstance(a, datetime.datetime):
        return a == b and a.utcoffset() == b.utcoffset() and a.replace(tzinfo=None) == b.replace(tzinfo=None)
    if isinstance(a, decimal.Decimal):
        return str(a) == str(b)
    return a == b


def diagnose(a, b):
    """Coarse cause of a value mismatch (for bucketing and known-finding matching)."""
    if isinstance(a, dict) and isinstance(b, dict):
        for k in a:
            if k in b and not strict_eq(a[k], b[k]):
                return diagnose(a[k], b[k])
    if isinstance(a, (list, tuple)) and isinstance(b, (list, tuple)):
        for x, y in zip(a, b):
            if not strict_eq(x, y):
                return diagnose(x, y)
    if isinstance(a, datetime.datetime):
        if isinstance(b, datetime.datetime) and a.utcoffset() != b.utcoffset():
            return 'datetime:utc-offset' + (':negative' if a.utcoffset() is not None and a.utcoffset() < datetime.timedelta(0) else '')
        if a.microsecond:
            return 'datetime:microseconds'
        return 'datetime'
    if isinstance(a, datetime.time):
        return 'time:microseconds' if a.microsecond else 'time'
    if isinstance(a, datetime.timedelta):
        return 'duration'
    return type(a).__name__


def check(case, ctx):
    pkg, n_cp = case['pkg'], case['n_cp']
    desc = gen.descriptor_of(pkg)

    tables = gen.tables_of(pkg)
    total = sum(len(t) for t in tables)
    cp_root = ctx.tmpdir()

    def cp_name(j):
        if case.get('names') == 'shared-last-component':
            return ['daily', 'weekly', 'monthly'][j - 1] + '/load'
        if case.get('names') == 'nested-directories':
            return ['etl/load/raw', 'etl/load', 'etl'][j - 1]       # a later checkpoint's directory holds the earlier ones'
        return 'cp%d' % j

    class Boom(Exception):
        pass

    def build(counts, fail_at=None):
        def counted(j):
            # counts the rows it sees and edits them IN PLACE (the same row objects the checkpoint writer yielded)
            def fn(rows):
                for r in rows:
                    if fail_at is not None and j == n_cp + 1 and counts[j] == fail_at:
                        raise Boom('injected failure of the last step')
                    counts[j] += 1
                    for k, v in r.items():
                        if isinstance(v, str):
                            r[k] = v + '!'
                        elif isinstance(v, list):
                            v.append(j)
                        elif isinstance(v, dict):
                            v['_%d' % j] = True
                    yield r
            return fn

        class Src(FeedStep):
            def process_datapackage(self, dp):
                counts[-1] += 1            # the source's package phase ran (it must not, when resuming)
                return super().process_datapackage(dp)

            def process_resources(self, resources):
                yield from dataflows.DataStreamProcessor.process_resources(self, resources)
                for t in copy.deepcopy(tables):
                    def it(t=t):
                        for r in t:
                            counts[0] += 1
                            yield r
                    yield it()
        class Src0(dataflows.DataStreamProcessor):
            # a flow without any source: the package never gets a 'resources' entry
            def process_datapackage(self, dp):
                counts[-1] += 1
                dp.descriptor['name'] = 'no-resources'
                return dp
        steps = [Src(desc, tables) if pkg else Src0(), counted(1)]
        for j in range(1, n_cp + 1):
            steps.append(dataflows.checkpoint(cp_name(j), checkpoint_path=cp_root))
            steps.append(counted(j + 1))
        tail = case.get('tail')
        if tail == 'delete_first':
            steps.append(dataflows.delete_resource('res1'))
        elif tail == 'delete_last':
            steps.append(dataflows.delete_resource('res%d' % len(pkg)))
        elif tail == 'concatenate_all':
            names_ = []
            for r_ in pkg:
                for f_ in r_['fields']:
                    if f_['name'] not in names_:
                        names_.append(f_['name'])
            steps.append(dataflows.concatenate({n_: [] for n_ in names_}, {'name': 'merged', 'path': 'merged.csv'}))
        elif tail == 'head':
            def first_row_only(rows):
                # stops reading every resource after its first row (it simply returns)
                for r in rows:
                    yield r
                    return
            steps.append(first_row_only)
        return steps

    prebuilt = []
    if case.get('prebuilt'):
        for op in case['ops']:
            if isinstance(op, str) and op.startswith('run'):
                cnt = [0] * (n_cp + 3)
                cap = []

                def mk_tap(cap):
                    def tap_(rows):
                        cur = []
                        cap.append(cur)
                        for r in rows:
                            cur.append(r)
                            yield r
                    return tap_
                st_ = build(cnt)
                with quiet():
                    prebuilt.append((Flow(*st_, mk_tap(cap)) if op == 'run-process' else Flow(*st_), cnt, cap))
    existing = set()
    first = None
    classes = ['checkpoints=%d' % n_cp] + (['prebuilt-flows'] if case.get('prebuilt') else []) + \
        (['names:shared-last-component'] if case.get('names') == 'shared-last-component' else [])
    resumed = False
    deleted_then_run = False
    pending_delete = False
    for op in case['ops']:
        if op == 'delete-all':
            shutil.rmtree(cp_root, ignore_errors=True)
            existing = set()
            pending_delete = first is not None
            continue
        if isinstance(op, (tuple, list)):
            if op[0] == 'fail-run':
                # a run whose last step fails at its k-th row: no checkpoint is committed by it, not even later when the
                # abandoned generators are collected; what existed before still exists
                if op[1] >= total or case.get('tail') == 'head':     # (behind an early-stopping step the k-th row may never be asked for)
                    continue
                import gc
                fc = [0] * (n_cp + 3)
                try:
                    with quiet():
                        Flow(*build(fc, fail_at=op[1])).results(on_error=None)
                except Exception:
                    pass
                else:
                    raise Violation('failing-run-returned-normally', {'fail_at': op[1]})
                gc.collect()
                on_disk = {j for j in range(1, n_cp + 1)
                           if os.path.exists(os.path.join(cp_root, cp_name(j), 'stream.ndjson'))}
                if on_disk != existing:
                    raise Violation('checkpoint-committed-by-a-failed-run', {'got': sorted(on_disk), 'model': sorted(existing),
                                                                             'fail_at': op[1]})
                classes.append('failed-run-in-history')
                continue
            shutil.rmtree(os.path.join(cp_root, cp_name(op[1])), ignore_errors=True)
            for j_ in range(1, n_cp + 1):
                # (removing a directory removes the checkpoints kept in directories below it)
                if cp_name(j_) == cp_name(op[1]) or cp_name(j_).startswith(cp_name(op[1]) + '/'):
                    existing.discard(j_)
            pending_delete = first is not None
            continue
        counts = [0] * (n_cp + 3)
        captured = []
        steps = build(counts)
        try:
            with quiet():
                if prebuilt:
                    flow, counts, captured = prebuilt.pop(0)
                    if op == 'run-process':
                        dp, _ = flow.process()
                        rows = captured
                    else:
                        rows, dp, _ = flow.results(on_error=None)
                elif op == 'run-process':
                    def tap(rows):
                        cur = []
                        captured.append(cur)
                        for r in rows:
                            cur.append(r)
                            yield r
                    dp, _ = Flow(*steps, tap).process()
                    rows = captured
                else:
                    rows, dp, _ = Flow(*steps).results(on_error=None)
        except Exception as e:
            rc = root_cause(e)
            if isinstance(rc, AssertionError) and 'empty row' in str(rc):
                return Info(rejected=True, classes=['rejected:concatenate: empty row (documented assertion)'])
            if first is not None and existing:
                raise Violation('resume-raises:%s' % type(rc).__name__, {'error': str(rc)[:300], 'existing': sorted(existing)})
            raise unexpected(e, 'run')
        resume = max(existing) if existing else 0
        exp_counts = [total if resume == 0 else 0] + [total if j > resume else 0 for j in range(1, n_cp + 2)] + \
            [1 if resume == 0 else 0]
        if case.get('tail') == 'head':
            # the step right in front of the early-stopping one only sees the rows that one asked for
            counts = list(counts)
            counts[n_cp + 1] = exp_counts[n_cp + 1]
        if counts != exp_counts:
            raise Violation('steps-executed', {'got': counts, 'expected': exp_counts, 'existing': sorted(existing)})
        for j in range(1, n_cp + 1):
            if j > resume:
                existing.add(j)
        on_disk = {j for j in range(1, n_cp + 1) if os.path.exists(os.path.join(cp_root, cp_name(j), 'stream.ndjson'))}
        if on_disk != existing:
            raise Violation('checkpoints-on-disk', {'got': sorted(on_disk), 'model': sorted(existing)})
        d = copy.deepcopy(dp.descriptor)
        if first is None:
            # the first run itself must deliver what was fed
            exp_tables = copy.deepcopy(tables)
            for t in exp_tables:
                for r in t:
                    for j in range(1, n_cp + 2):
                        for k, v in r.items():
                            if isinstance(v, str):
                                r[k] = v + '!'
                            elif isinstance(v, list):
                                v.append(j)
                            elif isinstance(v, dict):
                                v['_%d' % j] = True
            tail = case.get('tail')
            if tail == 'delete_first':
                exp_tables = exp_tables[1:]
            elif tail == 'delete_last':
                exp_tables = exp_tables[:-1]
            elif tail == 'concatenate_all':
                names_ = []
                for r_ in pkg:
                    for f_ in r_['fields']:
                        if f_['name'] not in names_:
                            names_.append(f_['name'])
                exp_tables = [[dict({n_: None for n_ in names_}, **r) for t in exp_tables for r in t]]
            elif tail == 'head':
                exp_tables = [t[:1] for t in exp_tables]
            if len(rows) != len(exp_tables):
                raise Violation('first-run-resources', {'got': len(rows), 'expected': len(exp_tables)})
            for got, exp in zip(rows, exp_tables):
                if len(got) != len(exp) or not all(strict_eq(g, e) for g, e in zip(got, exp)):
                    raise Violation('first-run-rows', {'got': got[:2], 'expected': exp[:2]})
            first = (rows, d)
        else:
            if resume > 0:
                resumed = True
            if pending_delete:
                deleted_then_run = True
            pending_delete = False
            if len(rows) != len(first[0]):
                raise Violation('resume:resource-count', {'got': len(rows), 'expected': len(first[0])})
            for ri, (got, exp) in enumerate(zip(rows, first[0])):
                if len(got) != len(exp):
                    raise Violation('resume:row-count', {'resource': ri, 'got': len(got), 'expected': len(exp)})
                for g, e in zip(got, exp):
                    if not strict_eq(g, e):
                        raise Violation('resume:value:' + diagnose(e, g), {'got': g, 'expected': e, 'resumed_from': resume})
            if d != first[1]:
                diff = [k for k in set(d) | set(first[1]) if d.get(k) != first[1].get(k)]
                raise Violation('resume:descriptor', {'differing_keys': diff, 'resumed_from': resume})
    typed = any(not isinstance(v, (str, type(None))) for t in tables for r in t for v in r.values())
    if resumed:
        classes.append('resumed')
    if deleted_then_run:
        classes.append('delete-then-run')
    return Info(nontrivial=(resumed and typed) or deleted_then_run, classes=classes,
                evals=sum(1 for o in case['ops'] if isinstance(o, str) and o.startswith('run')))
