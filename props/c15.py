"""C15 - field-level processors change schema and rows in lockstep.

Oracle: reference model (full-match pattern semantics, documented field order, documented
operations) compared with the raw datastream output."""
import re
import copy
import decimal
import fractions
import math

from hypothesis import strategies as st

from vlib import gen
from vlib.kernel import Violation, Info, run_steps, unexpected, dataflows, root_cause

PID = 'C15'
LEVEL = 'exploration'
RULE = ('cases = op in {select,delete,rename,add_field,add_computed_field,find_replace} x 1-2 target resources '
        '(+ optional bystander) x field names with regex metacharacters / prefixes x regex on/off x generated args; '
        'non-trivial: a pattern matches some but not all fields | a name containing a metacharacter is involved | '
        'a null among computed sources | a replacement changed some but not all cells; distinct by canonical case hash')
ASSUMPTIONS = [
    'patterns are valid regular expressions; "matches" means full match of the requested pattern (escaped when regex=False)',
    'rename targets are fresh names (do not collide with fields that are not renamed)',
    'numeric folds (avg/min/max/multiply) see >=1 non-null source per row; numeric sources are int/Decimal (no float mixing)',
    'find_replace is applied to string fields only',
]
BUDGET = {'quick': dict(examples=4800, shards=16, seconds=70),
          'thorough': dict(examples=200000, shards=16, seconds=1200)}

META = set('.+|()[] ')
PATTERN_POOL = ['a.*', r'x\d+', 'a|c', '(a|c)', 'a|ab', 'x1|x10', '.+', 'a.b', r'x(\d+)', '[a-c]', 'a.', 'A|a', 'val|id', 'b.*|x1']


def has_meta(s):
    return any(c in META for c in s)


# ------------------------------------------------------------------ generators
@st.composite
def base_pkg(draw, types, min_fields=2, max_fields=5, hard=True):
    flds = draw(gen.fields(min_fields, max_fields, names=gen.FIELD_NAMES, types=types))
    n_targets = draw(st.integers(1, 2))
    pkg = []
    for i in range(n_targets):
        f_i = flds
        if i == 1 and draw(st.integers(0, 2)) == 0:
            # the second target has fields of its own (other names may match the same patterns)
            f_i = draw(gen.fields(min_fields, max_fields, names=gen.FIELD_NAMES, types=types))
        rows = draw(gen.rows_for(f_i, 0, 5, hard=hard))
        pkg.append({'name': 'res%d' % (i + 1), 'fields': copy.deepcopy(f_i), 'rows': rows})
    targets = [r['name'] for r in pkg]
    if draw(st.booleans()):
        by = draw(gen.resource('other', max_fields=3, max_rows=3, names=['a', 'b', 'ab', 'x1', 'q']))
        pkg.insert(draw(st.integers(0, len(pkg))), by)
        sel = targets
    else:
        sel = draw(st.sampled_from([None, targets]))
    return pkg, targets, sel, flds


def patterns_for(flds, regex):
    names = [f['name'] for f in flds]
    opts = [st.sampled_from(names)]
    if regex:
        opts.append(st.sampled_from(names).map(re.escape))
        opts.append(st.sampled_from(PATTERN_POOL))
    else:
        opts.append(st.sampled_from(['missing', 'a', 'a.b']))
    return st.one_of(*opts)


@st.composite
def case_select_delete(draw, op):
    pkg, targets, sel, flds = draw(base_pkg(gen.TYPES_BASIC))
    regex = draw(st.booleans())
    pats = draw(st.lists(patterns_for(flds, regex), min_size=1, max_size=3))
    return {'op': op, 'pkg': pkg, 'targets': targets, 'sel': sel, 'regex': regex, 'fields': pats}


@st.composite
def case_rename(draw):
    pkg, targets, sel, flds = draw(base_pkg(gen.TYPES_BASIC))
    regex = draw(st.booleans())
    n = draw(st.integers(1, 3))
    mapping = []
    for i in range(n):
        p = draw(patterns_for(flds, regex))
        if regex and re.compile(p).groups >= 1 and draw(st.booleans()):
            tgt = 'N%d_\\1' % i
        elif regex and draw(st.booleans()):
            tgt = 'N%d_\\g<0>' % i
        else:
            tgt = 'N%d' % i
        mapping.append([p, tgt])
    names_ = [f['name'] for f in flds]
    if len(names_) >= 2 and draw(st.integers(0, 2)) == 0:
        a, b = draw(st.lists(st.sampled_from(names_), min_size=2, max_size=2, unique=True))
        ka, kb = (re.escape(a), re.escape(b)) if regex else (a, b)
        tb = b.replace('\\', '\\\\') if regex else b
        ta = a.replace('\\', '\\\\') if regex else a
        mapping = [[ka, tb], [kb, ta]] if draw(st.booleans()) else [[ka, tb], [kb, 'N_chain']]   # swap | chain a->b, b->fresh
    # dict semantics: later duplicate keys overwrite
    seen = {}
    for p, t in mapping:
        seen[p] = t
    return {'op': 'rename', 'pkg': pkg, 'targets': targets, 'sel': sel, 'regex': regex,
            'fields': [[p, t] for p, t in seen.items()]}


@st.composite
def case_add_field(draw):
    pkg, targets, sel, flds = draw(base_pkg(gen.TYPES_BASIC))
    t = draw(st.sampled_from(['string', 'integer', 'boolean', 'date', 'array']))
    kind = draw(st.sampled_from(['literal', 'none', 'callable_first', 'callable_count']))
    default = None
    if kind == 'literal':
        default = draw(gen.value(t, hard=True))
    new_name = draw(st.sampled_from(['new', 'n.w', 'a+b', 'zz']))
    if new_name in [f['name'] for f in flds]:
        new_name = 'new_' + new_name
    opts = draw(st.sampled_from([{}, {'title': 'T'}, {'format': 'default'}]))
    return {'op': 'add_field', 'pkg': pkg, 'targets': targets, 'sel': sel,
            'name': new_name, 'type': t, 'kind': kind, 'default': default, 'options': opts,
            # a second field-level step restricted to the FIRST target only: the other targets keep the new field as it is
            'then': draw(st.sampled_from([None, None, 'rename', 'delete']))}


NUM_OPS = ['sum', 'avg', 'min', 'max', 'multiply']


@st.composite
def case_computed(draw):
    # numeric sources: integers and Decimals only
    n_num = draw(st.integers(1, 3))
    num_names = draw(st.lists(st.sampled_from(['a', 'ab', 'a.b', 'x1', 'x2', 'val', 'a+']), min_size=n_num,
                              max_size=n_num, unique=True))
    flds = [{'name': n, 'type': draw(st.sampled_from(['integer', 'number']))} for n in num_names]
    s_names = draw(st.lists(st.sampled_from(['s', 't', 'b_c']), min_size=1, max_size=2, unique=True))
    flds += [{'name': n, 'type': 'string'} for n in s_names]
    flds = draw(st.permutations(flds))
    n_targets = draw(st.integers(1, 2))
    pkg = []
    for i in range(n_targets):
        n_rows = draw(st.integers(0, 5))
        rows = []
        for _ in range(n_rows):
            row = {}
            for f in flds:
                if f['type'] == 'integer':
                    v = draw(st.one_of(st.none(), st.integers(-20, 20), st.integers(-10 ** 12, 10 ** 12)))
                elif f['type'] == 'number':
                    v = draw(st.one_of(st.none(), gen.decimals_mixed(12)))
                else:
                    v = draw(st.one_of(st.none(), gen.text_hard(5)))
                row[f['name']] = v
            rows.append(row)
        pkg.append({'name': 'res%d' % (i + 1), 'fields': copy.deepcopy(list(flds)), 'rows': rows})
    if len(pkg) == 2 and draw(st.booleans()):
        # the same field names, but the numeric columns of the second resource have the other numeric type
        for f in pkg[1]['fields']:
            if f['type'] in ('integer', 'number'):
                f['type'] = 'number' if f['type'] == 'integer' else 'integer'
        for row in pkg[1]['rows']:
            for f in pkg[1]['fields']:
                v = row[f['name']]
                if v is not None and f['type'] == 'integer':
                    row[f['name']] = int(v)
                elif v is not None and f['type'] == 'number':
                    row[f['name']] = decimal.Decimal(v) + decimal.Decimal('0.5')
    targets = [r['name'] for r in pkg]
    sel = draw(st.sampled_from([None, targets]))
    specs = []
    for i in range(draw(st.integers(1, 2))):
        op = draw(st.sampled_from(NUM_OPS + ['constant', 'join', 'format', 'callable']))
        spec = {'operation': op, 'target': 'out%d' % i}
        if draw(st.booleans()):
            spec['target'] = {'name': 'out%d' % i, 'type': 'any'}
        # (a later specification of the same call may read the field an earlier one has just produced)
        prev_num = ['out0'] if (i == 1 and specs[0]['operation'] in ('sum', 'min', 'max', 'multiply') and draw(st.booleans())) else []
        prev_any = ['out0'] if (i == 1 and specs[0]['operation'] in ('constant', 'join', 'format') and draw(st.booleans())) else []
        if op in NUM_OPS:
            spec['source'] = prev_num + draw(st.lists(st.sampled_from(num_names), min_size=1, max_size=3, unique=True))
        elif op == 'join':
            spec['source'] = prev_any + draw(st.lists(st.sampled_from(num_names + s_names), min_size=1, max_size=3, unique=True))
            spec['with'] = draw(st.sampled_from([',', '', ' - ', '|']))
        elif op == 'constant':
            spec['with'] = draw(st.one_of(gen.text_easy(), st.integers(0, 9)))
        elif op == 'format':
            plain = [n for n in num_names + s_names if re.fullmatch(r'[A-Za-z_][A-Za-z0-9_]*', n)]
            if not plain:
                spec['with'] = 'const'
            else:
                parts = draw(st.lists(st.sampled_from(plain), min_size=1, max_size=2))
                spec['with'] = draw(st.sampled_from(['-', ' ', 'x'])).join('{%s}' % p for p in parts)
        else:
            spec['callable'] = draw(st.sampled_from(['count_nulls', 'first_str']))
        specs.append(spec)
    # make numeric folds well-defined: >=1 non-null source per row (sum tolerates none)
    for r in pkg:
        for row in r['rows']:
            for spec in specs:
                if spec['operation'] in ('avg', 'min', 'max', 'multiply'):
                    own = [s for s in spec['source'] if s in row]          # (not the target of an earlier specification)
                    if own and all(row[s] is None for s in own):
                        row[own[0]] = 1
    return {'op': 'computed', 'pkg': pkg, 'targets': targets, 'sel': sel, 'specs': specs,
            'use_kw': len(specs) == 1 and draw(st.booleans()),
            'then': draw(st.sampled_from([None, None, 'rename', 'delete']))}


FIND_POOL = [('a', 'b'), ('.', '-'), (r'\d+', 'N'), ('^x', 'y'), (r'(\w)(\w)', r'\2\1'), ('é', 'e'), ('"', "'"),
             (',', ';'), ('', '_'), ('a|b', 'c'), (r'\s+', ' '), ('None', 'x'),
             # replacement templates (whole-match reference, escapes) with a find expression that has no group
             ('a', r'\g<0>\g<0>'), (r'\d+', r'<\g<0>>'), ('é', r'\\'), ('x', r'\n'), ('b', r'\t-'), (r'[A-Z]', r'_\g<0>')]


@st.composite
def case_find_replace(draw):
    flds = draw(gen.fields(1, 4, names=gen.FIELD_NAMES, types=['string', 'string', 'integer']))
    if not any(f['type'] == 'string' for f in flds):
        flds[0]['type'] = 'string'
    n_targets = draw(st.integers(1, 2))
    pkg = []
    # a small pool shared by all string columns, so the same raw value shows up under several fields
    pool = draw(st.lists(gen.text_hard(6), min_size=1, max_size=3)) + [None]
    if draw(st.integers(0, 3)) == 0:
        # long cells: far more matches of one pattern than any small constant
        pool += [draw(st.sampled_from(['a,b ' * 20, 'x1 y22 ' * 12, 'ab' * 25, ', '.join(str(i) for i in range(30))]))]
    for i in range(n_targets):
        rows = draw(gen.rows_for(flds, 0, 5, hard=True))
        for row in rows:
            for f in flds:
                if f['type'] == 'string' and draw(st.booleans()):
                    row[f['name']] = draw(st.sampled_from(pool))
        pkg.append({'name': 'res%d' % (i + 1), 'fields': copy.deepcopy(flds), 'rows': rows})
    targets = [r['name'] for r in pkg]
    sel = draw(st.sampled_from([None, targets]))
    sflds = [f['name'] for f in flds if f['type'] == 'string']
    chosen = draw(st.lists(st.sampled_from(sflds), min_size=1, max_size=2, unique=True))
    specs = []
    for n in chosen:
        pats = draw(st.lists(st.sampled_from(FIND_POOL), min_size=1, max_size=3))
        specs.append({'name': n, 'patterns': [{'find': f, 'replace': r} for f, r in pats]})
    if draw(st.integers(0, 3)) == 0:
        # the same field named by two entries of the list: both entries' patterns apply, in order
        pats = draw(st.lists(st.sampled_from(FIND_POOL), min_size=1, max_size=2))
        specs.append({'name': chosen[0], 'patterns': [{'find': f, 'replace': r} for f, r in pats]})
    return {'op': 'find_replace', 'pkg': pkg, 'targets': targets, 'sel': sel, 'specs': specs}


def cases(tier):
    base = st.one_of(case_select_delete('select'), case_select_delete('delete'), case_rename(),
                     case_add_field(), case_computed(), case_find_replace())
    # rows are dicts: the order of their keys need not be the order of the schema's fields
    return st.tuples(base, st.sampled_from(['schema', 'schema', 'reversed', 'rotated'])).map(lambda t: dict(t[0], key_order=t[1]))


# ------------------------------------------------------------------ callables library
def fn_count_nulls(row):
    return sum(1 for v in row.values() if v is None)


def fn_first_str(row):
    for v in row.values():
        if isinstance(v, str):
            return v
    return None


CALLABLES = {'count_nulls': fn_count_nulls, 'first_str': fn_first_str,
             'callable_first': lambda row: next(iter(row.values()), None),
             'callable_count': lambda row: len(row)}


# ------------------------------------------------------------------ model
def rx(p, regex):
    return re.compile(p if regex else re.escape(p))


class Reject(Exception):
    pass


def num_eq(a, b):
    if a is None or b is None:
        return a is b
    if isinstance(a, bool) or isinstance(b, bool):
        return a == b
    num = (int, float, decimal.Decimal, fractions.Fraction)
    if isinstance(a, num) and isinstance(b, num):
        if isinstance(a, float) or isinstance(b, float):
            return math.isclose(float(a), float(b), rel_tol=1e-12, abs_tol=1e-300)
        fa, fb = fractions.Fraction(a), fractions.Fraction(b)
        if fa == fb:
            return True
        return abs(fa - fb) <= abs(fb) * fractions.Fraction(1, 10 ** 24)
    return a == b


def model(case, res):
    """Returns (field names in order, rows) expected for target resource `res`."""
    names = [f['name'] for f in res['fields']]
    rows = copy.deepcopy(res['rows'])
    op = case['op']
    if op == 'select':
        remaining = list(names)
        out = []
        for p in case['fields']:
            pat = rx(p, case['regex'])
            for n in list(remaining):
                if pat.fullmatch(n):
                    out.append(n)
                    remaining.remove(n)
        if not out:
            raise Reject('nothing selected')
        return out, [{k: r[k] for k in out} for r in rows]
    if op == 'delete':
        pats = [rx(p, case['regex']) for p in case['fields']]
        out = [n for n in names if not any(p.fullmatch(n) for p in pats)]
        return out, [{k: r[k] for k in out} for r in rows]
    if op == 'rename':
        ren = {}
        for n in names:
            for p, t in case['fields']:
                m = rx(p, case['regex']).fullmatch(n)
                if m:
                    ren[n] = m.expand(t)
                    break
        newnames = list(ren.values())
        if len(set(newnames)) != len(newnames):
            raise Reject('two fields renamed to the same name')
        out = [ren.get(n, n) for n in names]
        if len(set(out)) != len(out):
            raise Reject('rename collides with an untouched field')  # outside the stated domain
        return out, [{ren.get(k, k): v for k, v in r.items()} for r in rows]
    if op == 'add_field':
        out = names + [case['name']]
        for r in rows:
            if case['kind'] in ('literal', 'none'):
                r[case['name']] = case['default']
            else:
                r[case['name']] = CALLABLES[case['kind']](dict(r))
        return out, rows
    if op == 'computed':
        out = list(names)
        for spec in case['specs']:
            t = spec['target']
            out.append(t if isinstance(t, str) else t['name'])
        for r in rows:
            for spec in case['specs']:
                t = spec['target']
                tn = t if isinstance(t, str) else t['name']
                o = spec['operation']
                vals = [r.get(s) for s in spec.get('source', []) if r.get(s) is not None]
                if o == 'sum':
                    v = sum((fractions.Fraction(x) for x in vals), fractions.Fraction(0))
                elif o == 'avg':
                    v = sum((fractions.Fraction(x) for x in vals), fractions.Fraction(0)) / len(vals)
                elif o == 'min':
                    v = min(vals)
                elif o == 'max':
                    v = max(vals)
                elif o == 'multiply':
                    v = fractions.Fraction(1)
                    for x in vals:
                        v *= fractions.Fraction(x)
                elif o == 'constant':
                    v = spec['with']
                elif o == 'join':
                    v = spec['with'].join(str(x) for x in vals)
                elif o == 'format':
                    v = spec['with'].format(**r)
                else:
                    v = CALLABLES[spec['callable']](dict(r))
                r[tn] = v
        return out, rows
    if op == 'find_replace':
        for r in rows:
            for spec in case['specs']:
                for p in spec['patterns']:
                    if r[spec['name']] is not None:
                        r[spec['name']] = re.sub(p['find'], p['replace'], r[spec['name']])
        return names, rows
    raise AssertionError(op)


def build_step(case):
    op, sel = case['op'], copy.deepcopy(case['sel'])
    if op == 'select':
        return dataflows.select_fields(list(case['fields']), resources=sel, regex=case['regex'])
    if op == 'delete':
        return dataflows.delete_fields(list(case['fields']), resources=sel, regex=case['regex'])
    if op == 'rename':
        return dataflows.rename_fields({p: t for p, t in case['fields']}, resources=sel, regex=case['regex'])
    if op == 'add_field':
        d = case['default'] if case['kind'] in ('literal', 'none') else CALLABLES[case['kind']]
        return dataflows.add_field(case['name'], case['type'], copy.deepcopy(d), resources=sel,
                                   **copy.deepcopy(case['options']))
    if op == 'computed':
        specs = []
        for s in case['specs']:
            d = {'target': copy.deepcopy(s['target'])}
            d['operation'] = CALLABLES[s['callable']] if s['operation'] == 'callable' else s['operation']
            if 'source' in s:
                d['source'] = list(s['source'])
            if 'with' in s:
                d['with'] = s['with']
            specs.append(d)
        if case['use_kw']:
            d = specs[0]
            if 'with' in d:
                d['with_'] = d.pop('with')
            return dataflows.add_computed_field(resources=sel, **d)
        return dataflows.add_computed_field(specs, resources=sel)
    if op == 'find_replace':
        return dataflows.find_replace(copy.deepcopy(case['specs']), resources=sel)
    raise AssertionError(op)


def then_field(case):
    if case['op'] == 'add_field':
        return case['name']
    t = case['specs'][0]['target']
    return t if isinstance(t, str) else t['name']


def then_step(case):
    f = then_field(case)
    first = [case['targets'][0]]
    if case['then'] == 'rename':
        return dataflows.rename_fields({f: 'renamed_new'}, resources=first, regex=False)
    return dataflows.delete_fields([f], resources=first, regex=False)


def then_model(case, fields, rows):
    f = then_field(case)
    if case['then'] == 'rename':
        return ['renamed_new' if n == f else n for n in fields], \
            [{('renamed_new' if k == f else k): v for k, v in r.items()} for r in rows]
    return [n for n in fields if n != f], [{k: v for k, v in r.items() if k != f} for r in rows]


def rows_equal(got, exp):
    if len(got) != len(exp):
        return False
    for g, e in zip(got, exp):
        if set(g) != set(e):
            return False
        for k in e:
            if not num_eq(g[k], e[k]):
                return False
            if isinstance(e[k], str) != isinstance(g[k], str):
                return False
    return True


def check(case, ctx):
    pkg = case['pkg']
    op = case['op']
    desc = gen.descriptor_of(pkg)
    tables = gen.tables_of(pkg)
    ko = case.get('key_order', 'schema')
    if ko != 'schema':
        def reorder(r):
            ks = list(r)
            ks = ks[::-1] if ko == 'reversed' else ks[1:] + ks[:1]
            return {k: r[k] for k in ks}
        pkg = [dict(r, rows=[reorder(x) for x in r['rows']]) for r in pkg]       # (model and code see the same rows)
        tables = gen.tables_of(pkg)
    classes = [op] + (['row-keys-in-%s-order' % ko] if ko != 'schema' else [])
    expected = {}
    reject = None
    for r in pkg:
        if r['name'] in case['targets']:
            try:
                expected[r['name']] = model(case, r)
                if case.get('then') and r['name'] == case['targets'][0]:
                    expected[r['name']] = then_model(case, *expected[r['name']])
            except Reject as e:
                reject = str(e)
    steps = [build_step(case)]
    if op == 'computed' and not case.get('use_kw'):
        # the caller's specification objects serve a second flow as well: an earlier, separate run with the very same
        # objects must not change what they mean
        shared = []
        for s_ in case['specs']:
            d_ = {'target': copy.deepcopy(s_['target'])}
            d_['operation'] = CALLABLES[s_['callable']] if s_['operation'] == 'callable' else s_['operation']
            if 'source' in s_:
                d_['source'] = list(s_['source'])
            if 'with' in s_:
                d_['with'] = s_['with']
            shared.append(d_)
        try:
            run_steps([dataflows.add_computed_field(shared, resources=copy.deepcopy(case['sel']))], desc, tables)
        except Exception:
            pass
        steps = [dataflows.add_computed_field(shared, resources=copy.deepcopy(case['sel']))]
        classes.append('specification-objects-used-twice')
    if case.get('then'):
        steps.append(then_step(case))
        classes.append('then:' + case['then'] + ('-with-second-target' if len(case['targets']) > 1 else ''))
    try:
        out_desc, out_rows = run_steps(steps, desc, tables)
    except Exception as e:
        rc = root_cause(e)
        if reject is not None and isinstance(rc, AssertionError):
            return Info(rejected=True, classes=classes + ['rejected:' + reject])
        if reject == 'rename collides with an untouched field':
            return Info(rejected=True, classes=classes + ['rejected:' + reject])
        raise unexpected(e, op)
    if reject is not None:
        if reject == 'rename collides with an untouched field':
            return Info(rejected=True, classes=classes + ['out-of-domain:' + reject])
        raise Violation('%s:accepted-input-the-docs-reject' % op, {'why': reject})
    nontrivial = False
    for i, r in enumerate(pkg):
        got_fields = [f['name'] for f in out_desc['resources'][i]['schema']['fields']]
        if r['name'] not in case['targets']:
            if out_rows[i] != r['rows'] or got_fields != [f['name'] for f in r['fields']]:
                raise Violation('%s:bystander-changed' % op, {'resource': r['name']})
            classes.append('with-bystander')
            continue
        exp_fields, exp_rows = expected[r['name']]
        if got_fields != exp_fields:
            sig = '%s:schema-fields' % op
            if sorted(got_fields) == sorted(exp_fields):
                sig = '%s:schema-field-order' % op
            raise Violation(sig, {'got': got_fields, 'expected': exp_fields, 'resource': r['name']})
        for row in out_rows[i]:
            if set(row) != set(got_fields):
                raise Violation('%s:row-keys-vs-schema' % op, {'row_keys': sorted(row), 'schema': got_fields})
        if not rows_equal(out_rows[i], exp_rows):
            bad = next(((g, e) for g, e in zip(out_rows[i], exp_rows) if not rows_equal([g], [e])), None)
            sig = '%s:row-values' % op
            if op == 'find_replace' and bad and any(e.get(k) is None and g.get(k) == 'None' for g, e in [bad] for k in e):
                sig = 'find_replace:null-becomes-string-None'
            raise Violation(sig, {'got': bad[0] if bad else len(out_rows[i]), 'expected': bad[1] if bad else len(exp_rows)})
        # field types: untouched fields keep their type; explicit targets get the declared type
        types_in = {f['name']: f['type'] for f in r['fields']}
        types_out = {f['name']: f['type'] for f in out_desc['resources'][i]['schema']['fields']}
        if op in ('select', 'delete', 'find_replace', 'add_field', 'computed'):
            for n in exp_fields:
                if n in types_in and types_out[n] != types_in[n]:
                    raise Violation('%s:field-type-changed' % op, {'field': n})
        if op == 'add_field' and case['name'] in types_out and types_out[case['name']] != case['type']:
            raise Violation('add_field:declared-type-lost', {'got': types_out[case['name']]})
        if op == 'computed':
            # the average of decimal values is computed in decimals (a binary float would be another number)
            for spec in case['specs']:
                if spec['operation'] == 'avg':
                    tn = spec['target'] if isinstance(spec['target'], str) else spec['target']['name']
                    for src_row, out_row in zip(r['rows'], out_rows[i]):
                        vals = [src_row.get(s_) for s_ in spec['source'] if src_row.get(s_) is not None]
                        if vals and any(isinstance(v, decimal.Decimal) for v in vals) and isinstance(out_row.get(tn), float):
                            raise Violation('computed:avg-of-decimals-computed-in-binary-floats',
                                            {'sources': vals, 'got': out_row.get(tn)})
            # schema and rows in lockstep also means: the declared type of a computed field accepts its values
            import tableschema
            for fd in out_desc['resources'][i]['schema']['fields']:
                if fd['name'].startswith('out') and fd.get('type') not in (None, 'any'):
                    fld = tableschema.Field(fd)
                    for row in out_rows[i]:
                        v = row.get(fd['name'])
                        if v is None:
                            continue
                        try:
                            fld.cast_value(v)
                        except tableschema.exceptions.CastError:
                            raise Violation('computed:value-not-valid-for-declared-type',
                                            {'field': fd['name'], 'type': fd['type'], 'value': v, 'resource': r['name']})
        # non-triviality
        names = [f['name'] for f in r['fields']]
        if op in ('select', 'delete', 'rename'):
            pats = [p if isinstance(p, str) else p[0] for p in case['fields']]
            if 0 < len(set(exp_fields) & set(names)) < len(names) or any(has_meta(p) for p in pats) or \
                    any(has_meta(n) for n in names):
                nontrivial = True
        elif op == 'computed':
            nontrivial = nontrivial or any(v is None for row in r['rows'] for v in row.values())
        elif op == 'find_replace':
            ch = sum(1 for a, b in zip(r['rows'], exp_rows) if a != b)
            nontrivial = nontrivial or 0 < ch
        else:
            nontrivial = nontrivial or len(r['rows']) > 0
    if case.get('regex') is not None:
        classes.append('regex' if case['regex'] else 'literal')
    if op == 'computed':
        classes += ['computed:' + s['operation'] for s in case['specs']]
    return Info(nontrivial=nontrivial, classes=classes)
