"""C19 - a dump descriptor is written only after its data files are complete (fault enumeration).

For every generated dump, every Python-level I/O event (open / write / flush / close / copy chunk /
makedirs / unlink on the output directory and the dumper's temp files) is a crash point: a forked child
is killed with os._exit there (buffers lost | buffers flushed | half of that write on disk) and the
parent checks the directory: a parseable datapackage.json implies every listed file exists with the
recorded size and MD5."""
import os
import json
import hashlib

from hypothesis import strategies as st

from vlib import gen, gen_dump, faults
from vlib.kernel import Violation, Info, dataflows, quiet, Flow, FeedStep

PID = 'C19'
LEVEL = 'fault_enumeration'
LEVEL_TEXT = ('fault enumeration: for each generated dump, all crash points (I/O events, coalescing rule in the evidence) x '
              'kill variants are enumerated exhaustively; the dumps themselves are sampled')
TECHNIQUE = 'property-based generation of dumps + exhaustive crash-point enumeration per dump (fork + os._exit at each I/O event)'
RULE = ('cases = 1-3 resources x 0-25 rows x csv/json x pretty_descriptor, dump_to_path into a fresh directory; per case: one '
        'recording run, then one forked run per (crash point, variant in lost/flushed/mid/raise; raise = the I/O call raises OSError instead of killing). A run of consecutive write events on '
        'one file is represented by its first, middle and last event; shutil.copy is performed in 3 chunks (each a crash point). '
        'non-trivial crash run: the kill happens after the first data-file event and before the last descriptor event; '
        'distinct by (case hash, event number, variant)')
ASSUMPTIONS = [
    'crash points are Python-level I/O calls; kernel-level reordering / torn sectors / power loss after rename are not modelled',
    'a datapackage.json that does not parse as JSON is treated as absent (the statement speaks of a parseable descriptor)',
]
BUDGET = {'quick': dict(examples=48, shards=16, seconds=80, chunk=6),
          'thorough': dict(examples=1600, shards=16, seconds=1200, chunk=10)}


@st.composite
def cases_(draw):
    fmt = draw(st.sampled_from(['csv', 'json']))
    pkg = draw(gen_dump.dump_package(sort_fields=True, max_fields=3, max_rows=draw(st.sampled_from([0, 1, 3, 25])),
                                     types=['string', 'integer', 'date']))
    if gen.rare(draw, 600):
        # multi-byte text: sizes in characters and in bytes differ
        for r in pkg:
            for row in r['rows']:
                for f in r['fields']:
                    if f['type'] == 'string' and row[f['name']] is not None:
                        row[f['name']] = 'é日' + row[f['name']]
    c = {'pkg': pkg, 'format': fmt, 'pretty': draw(st.sampled_from([None, False])),
         'filehash': draw(st.integers(0, 4)) == 0}
    if len(pkg) >= 2 and draw(st.integers(0, 3)) == 0:
        # a later step of the same flow drops one of the dumped resources
        c['then_delete'] = draw(st.integers(0, len(pkg) - 1))
    elif draw(st.integers(0, 3)) == 0:
        # a later step of the same flow stops reading every resource after its first row
        c['then_head'] = True
    # the hash counter may be switched off; the incoming descriptor may carry the counters of an earlier dump
    c['no_hash'] = draw(st.integers(0, 4)) == 0
    c['stale'] = draw(st.integers(0, 4)) == 0
    if draw(st.integers(0, 5)) == 0:
        o = {}
        gen_dump.per_resource_formats(draw, pkg, o)     # force_format=False: the format each path names
        c['force_format'] = False
    return c


def cases(tier):
    return cases_()


NO_HASH = [False]


def inspect(out):
    """-> None if the directory state is allowed, else (signature, detail)."""
    dp = os.path.join(out, 'datapackage.json')
    if not os.path.exists(dp):
        return None
    try:
        with open(dp, 'rb') as f:
            wd = json.loads(f.read().decode('utf-8'))
    except Exception:
        return None
    if not isinstance(wd, dict) or 'resources' not in wd:
        return ('descriptor-parses-but-incomplete', {'keys': sorted(wd) if isinstance(wd, dict) else str(type(wd))})
    for r in wd['resources']:
        p = os.path.join(out, r['path'])
        if not os.path.isfile(p):
            return ('descriptor-lists-missing-file', {'path': r['path']})
        with open(p, 'rb') as f:
            raw = f.read()
        if 'bytes' in r and r['bytes'] != len(raw):
            return ('descriptor-size-differs-from-file', {'path': r['path'], 'recorded': r['bytes'], 'actual': len(raw)})
        if 'hash' in r and r['hash'] != hashlib.md5(raw).hexdigest():
            return ('descriptor-hash-differs-from-file', {'path': r['path']})
        if 'bytes' not in r or ('hash' not in r and not NO_HASH[0]):
            return ('descriptor-without-size-or-hash', {'path': r['path']})
    return None


def check(case, ctx):
    pkg = case['pkg']
    desc = gen.descriptor_of(pkg)
    NO_HASH[0] = bool(case.get('no_hash'))
    if case.get('stale'):
        desc.update({'count_of_rows': 1234, 'bytes': 99999, 'hash': 'f' * 32})
        for rd in desc['resources']:
            rd.update({'count_of_rows': 77, 'bytes': 4242} if case.get('no_hash') else {'count_of_rows': 77, 'bytes': 4242, 'hash': 'e' * 32})
    tables = gen.tables_of(pkg)
    root = ctx.tmpdir()

    def make(out):
        def fn():
            kw = {}
            if case.get('no_hash'):
                kw['counters'] = {'resource-hash': None}
            if case.get('force_format') is False:
                kw['force_format'] = False
            elif case['format'] != 'csv':
                kw['format'] = case['format']
            if case['pretty'] is not None:
                kw['pretty_descriptor'] = case['pretty']
            if case['filehash']:
                kw['add_filehash_to_path'] = True
            with quiet():
                tail = []
                if case.get('then_delete') is not None:
                    tail = [dataflows.delete_resource([pkg[case['then_delete']]['name']])]
                if case.get('then_head'):
                    def first_row_only(rows):
                        for r in rows:
                            yield r
                            return
                    tail = [first_row_only]
                Flow(FeedStep(desc, tables), dataflows.dump_to_path(out, **kw), *tail).process()
        return fn
    out0 = os.path.join(root, 'rec')
    status, events = faults.run_child(make(out0), out0, record=True)
    if status != 'completed':
        raise Violation('uninterrupted-dump-failed', {'status': status})
    bad = inspect(out0)
    if bad or not os.path.exists(os.path.join(out0, 'datapackage.json')):
        raise Violation('uninterrupted-dump-inconsistent', {'why': bad})
    points = faults.crash_points(events)
    first_data = next((i for i, e in enumerate(events, 1) if e[0].startswith('copy')), None)
    last_desc = max((i for i, e in enumerate(events, 1) if 'datapackage.json' in e[1]), default=None)
    n_runs = 0
    n_nontrivial = 0
    subkeys = []
    for k in points:
        kind = events[k - 1][0]
        variants = ['lost', 'flushed', 'raise'] + (['mid'] if kind in ('write', 'copy-chunk') else [])
        for v in variants:
            out = os.path.join(root, 'k%d%s' % (k, v))
            status, _ = faults.run_child(make(out), out, crash_at=k, variant=v)
            n_runs += 1
            if status != ('error:3' if v == 'raise' else 'crashed'):
                raise Violation('harness:crash-point-not-reached', {'event': k, 'status': status, 'events': len(events)})
            bad = inspect(out) if os.path.isdir(out) else None
            if bad:
                raise Violation(bad[0], dict(bad[1], crash_event=k, event=events[k - 1], variant=v,
                                             listing=sorted(os.listdir(out))[:8]))
            if first_data and last_desc and first_data <= k <= last_desc:
                n_nontrivial += 1
                subkeys.append('%d%s' % (k, v))
    classes = ['fmt:' + (case['format'] if case.get('force_format', True) else 'per-resource'), 'resources=%d' % len(pkg), 'events~%d' % (10 * (len(events) // 10)),
               'crash-runs~%d' % (20 * (n_runs // 20))]
    info = Info(nontrivial=n_nontrivial >= 2, classes=classes, evals=n_runs + 1, subkeys=subkeys,
                extra={'crash_runs': n_runs, 'crash_runs_between_first_data_event_and_last_descriptor_event': n_nontrivial,
                       'io_events_recorded': len(events), 'dumps_enumerated_exhaustively': 1})
    return info
