"""C20 - dump_to_sql leaves the table in the state its mode prescribes (model-based, histories).

A history is a generated sequence of 1-5 dumps into one SQLite file.  Model = a Python list of rows:
rewrite -> exactly the dumped rows; append -> previous + dumped; update -> per row, replace the rows with
equal update-key values, else insert.  After every dump SELECT * (as a multiset) must equal the model
and the rows passed downstream must equal the rows fed, plus truthful `updated` flags."""
import os
import copy
import json
import decimal
import datetime

from hypothesis import strategies as st

from vlib import gen
from vlib.compare import val_eq
from vlib.kernel import Violation, Info, dataflows, quiet, Flow, FeedStep, root_cause, unexpected

PID = 'C20'
LEVEL = 'exploration'
LEVEL_TEXT = ('model-based exploration of dump histories (generated as one shrinkable value, keys chosen against the model '
              'state) against a list-of-rows model of the table; holds on everything explored')
TECHNIQUE = 'model-based property testing of dump histories against a reference table model (SQLite file per history)'
RULE = ('cases = histories of 1-5 dumps into one SQLite table x mode per dump (rewrite/append/update) x rows 0-8 x update keys '
        '(explicit or from the primary key) x batch_size in {1,2,1000} x bloom filter on/off x updated_column x schemas with '
        'string/integer keys and integer/string/number/date/array/object columns; non-trivial: >=2 dumps with an update that '
        'both replaces and inserts; distinct by canonical case hash')
ASSUMPTIONS = [
    'histories stay inside the documented contract: key fields are non-null; with a primary key, rewrite/append rows carry '
    'unique (and for append: fresh) keys; update mode is only used with update keys available',
    'numbers are binary fractions (exact in SQLite REAL); array/object values are JSON-native',
]
BUDGET = {'quick': dict(examples=1280, shards=16, seconds=75),
          'thorough': dict(examples=30000, shards=16, seconds=1200)}

K1 = ['a', 'b', 'a b', 'é']
K2 = [0, 1, 2]
VALS = {'v_int': 'integer', 'v_str': 'string', 'v_num': 'number', 'v_date': 'date', 'v_arr': 'array', 'v_obj': 'object'}


def val(t, name=None):
    if name == 'v_int' and t == 'string':
        # a text column that used to be an integer column: numeric-looking text has to stay text
        return st.one_of(st.none(), st.sampled_from(['007', '1e3', 'x', '12', ' 5']))
    if name == 'v_str' and t == 'integer':
        return st.one_of(st.none(), st.integers(-5, 5))
    if t == 'integer':
        return st.one_of(st.none(), st.integers(-5, 5), st.just(2 ** 40))
    if t == 'string':
        return st.one_of(st.none(), st.sampled_from(['x', 'y z', 'é', "q'uote", 'null']))
    if t == 'number':
        return st.one_of(st.none(), st.integers(-40, 40).map(lambda i: decimal.Decimal(i) / 4))
    if t == 'date':
        return st.one_of(st.none(), st.dates(min_value=datetime.date(1900, 1, 1), max_value=datetime.date(2100, 1, 1)))
    if t == 'array':
        return st.one_of(st.none(), st.lists(st.one_of(st.integers(0, 3), st.sampled_from(['a', 'é', None])), max_size=3))
    return st.one_of(st.none(), st.dictionaries(st.sampled_from(['p', 'q']), st.one_of(st.integers(0, 3), st.sampled_from(['a', None])), max_size=2))


@st.composite
def cases_(draw):
    pk = draw(st.sampled_from([None, None, ['k1'], ['k1', 'k2'], ['rid']]))
    vnames = draw(st.lists(st.sampled_from(sorted(VALS)), min_size=1, max_size=3, unique=True))
    fields = [{'name': 'k1', 'type': 'string'}, {'name': 'k2', 'type': 'integer'}] + \
             [{'name': v, 'type': VALS[v]} for v in vnames]
    # 'rid' class: the primary key is a separate unique row id, updates use explicit keys that differ from it
    rid_class = pk == ['rid']
    if rid_class:
        fields.append({'name': 'rid', 'type': 'integer'})
    next_rid = [1]
    n = draw(st.integers(1, 5))
    dumps = []
    keys_in_table = set()
    cur_types = {v: VALS[v] for v in vnames}
    for di in range(n):
        modes = ['rewrite', 'append', 'update', 'update'] if di else ['rewrite', 'append', 'update', None]
        mode = draw(st.sampled_from(modes))
        if di and mode == 'rewrite' and draw(st.booleans()):
            # a rewrite may bring a changed schema: same column names, another type for one column
            for v in ('v_int', 'v_str'):
                if v in cur_types and draw(st.booleans()):
                    cur_types[v] = {'integer': 'string', 'string': 'integer'}[cur_types[v]]
        ukeys = None
        if mode == 'update':
            if rid_class:
                ukeys = ['k1']                    # explicit keys take precedence over the primary key
            elif pk and draw(st.booleans()):
                ukeys = None                      # fall back to the primary key
            else:
                ukeys = draw(st.sampled_from([['k1'], ['k1', 'k2']]))
                if pk:
                    ukeys = list(pk)              # with a PK constraint, other update keys could violate it
        elif mode in ('append', 'rewrite') and draw(st.integers(0, 3)) == 0:
            # update_keys is documented as "only applicable for the update mode": it must be ignored here
            ukeys = draw(st.sampled_from([['k1'], ['k1', 'k2']]))
        k = draw(st.integers(0, 8))
        rows = []
        used = set()
        eff_mode = mode or 'rewrite'
        if eff_mode == 'rewrite':
            keys_in_table = set()
        for _ in range(k):
            key = (draw(st.sampled_from(K1)), draw(st.sampled_from(K2)))
            if rid_class:
                # k1 stays unique in the table (so that an update by k1 touches at most one row)
                if key[0] in {u[0] for u in used} or (eff_mode == 'append' and key[0] in {kk[0] for kk in keys_in_table}):
                    continue
                used.add((key[0],))
            elif pk and eff_mode in ('rewrite', 'append'):
                pkv = tuple(key[:len(pk)])
                if pkv in used or (eff_mode == 'append' and pkv in {kk[:len(pk)] for kk in keys_in_table}):
                    continue
                used.add(pkv)
            row = {'k1': key[0], 'k2': key[1]}
            if rid_class:
                row['rid'] = next_rid[0]
                next_rid[0] += 1
            for v in vnames:
                row[v] = draw(val(cur_types[v], v))
            rows.append(row)
        for r in rows:
            keys_in_table.add((r['k1'], r['k2']))
        dumps.append({'mode': mode, 'update_keys': ukeys, 'rows': rows, 'types': dict(cur_types),
                      'batch': draw(st.sampled_from([None, 1, 2, 1000])), 'bloom': draw(st.sampled_from([None, True, False])),
                      'updated_column': draw(st.booleans())})
    c = {'pk': pk, 'fields': fields, 'dumps': dumps, 'shared_conf': draw(st.integers(0, 3)) == 0}
    if 'v_str' in vnames and draw(st.integers(0, 2)) == 0:
        # the schema says that only 'n/a' stands for a missing value: an empty string is an ordinary value then
        c['missing_values'] = ['n/a']
        for d_ in dumps:
            if d_.get('types', {}).get('v_str', 'string') == 'string':
                for r_ in d_['rows']:
                    if r_.get('v_str') is not None and draw(st.integers(0, 2)) == 0:
                        r_['v_str'] = ''
    return c


def cases(tier):
    return cases_()


def canon_row(r):
    out = {}
    for k, v in r.items():
        if isinstance(v, decimal.Decimal):
            v = float(v)
        elif isinstance(v, (datetime.date, datetime.datetime)):
            v = v.isoformat()
        out[k] = v
    return json.dumps(out, sort_keys=True, default=str)


def read_table(engine_url, fields, table='t1'):
    import sqlalchemy
    eng = sqlalchemy.create_engine(engine_url)
    try:
        with eng.connect() as conn:
            res = conn.execute(sqlalchemy.text('SELECT * FROM "%s"' % table))
            cols = list(res.keys())
            rows = [dict(zip(cols, r)) for r in res]
    finally:
        eng.dispose()
    types = {f['name']: f['type'] for f in fields}
    for r in rows:
        for k, v in list(r.items()):
            if v is None:
                continue
            t = types.get(k)
            if t in ('array', 'object') and isinstance(v, str):
                # a null value has to be stored as SQL NULL, not as the JSON text 'null'
                r[k] = json.loads(v) if v != 'null' else 'JSON-TEXT-null'
            elif t == 'date' and isinstance(v, str):
                r[k] = datetime.date.fromisoformat(v[:10])
            elif t == 'number':
                r[k] = decimal.Decimal(str(v))
    return rows


def check(case, ctx):
    d = ctx.tmpdir()
    url = 'sqlite:///' + os.path.join(d, 'db.sqlite')
    fields = case['fields']
    # (the mapped resource and its unmapped sibling have names that differ only where the mapped one has a '.')
    res = {'name': 'res.1', 'fields': fields, 'rows': []}
    if case['pk']:
        res['pk'] = case['pk']
    model = []
    classes = ['pk:%s' % ('none' if not case['pk'] else len(case['pk']))]
    both = False
    # other tables of the same database whose names extend the target's name, and a resource of the same package that is
    # not mapped to any table: none of them is touched by the dumps into "t1"
    other_fields = [{'name': 'q', 'type': 'integer'}, {'name': 's', 'type': 'string'}]
    other_rows = [{'q': 1, 's': 'keep'}, {'q': 2, 's': None}, {'q': 3, 's': 'é'}]
    other = {'name': 'res-1', 'fields': other_fields, 'rows': other_rows}
    try:
        with quiet():
            step = dataflows.dump_to_sql({'t1_archive': {'resource-name': 'arch'}, 't10': {'resource-name': 'ten'}}, engine=url)
            Flow(FeedStep(gen.descriptor_of([dict(other, name='arch'), dict(other, name='ten')]),
                          [copy.deepcopy(other_rows), copy.deepcopy(other_rows)]), step).process()
            step.engine.dispose()
    except Exception as e:
        raise unexpected(e, 'setting up the neighbouring tables')
    shared_conf = {'resource-name': 'res.1'}
    if case.get('shared_conf'):
        try:
            with quiet():
                step = dataflows.dump_to_sql({'t_shadow': shared_conf}, engine=url)
                Flow(FeedStep(gen.descriptor_of([dict(other, name='res.1')]), [copy.deepcopy(other_rows)]), step).process()
                step.engine.dispose()
        except Exception as e:
            raise unexpected(e, 'dump into another table with the shared settings dict')
        classes.append('settings-dict-shared-between-dumps')
    for di, dump in enumerate(case['dumps']):
        mode = dump['mode']
        if dump.get('types'):
            fields = [dict(f, type=dump['types'].get(f['name'], f['type'])) for f in case['fields']]
            if fields != case['fields']:
                classes.append('rewrite-with-retyped-column')
        res = dict(res, fields=fields)
        if case.get('missing_values'):
            res['schema_extra'] = {'missingValues': list(case['missing_values'])}
        other_first = bool(di % 2)
        pkg_ = [other, res] if other_first else [res, other]
        desc = gen.descriptor_of(pkg_)
        if case.get('shared_conf'):
            # one settings dict object serves every dump of the history (and served another table before)
            conf = shared_conf
            for k_ in ('mode', 'update_keys'):
                conf.pop(k_, None)
        else:
            conf = {'resource-name': 'res.1'}
        if mode is not None:
            conf['mode'] = mode
        if dump['update_keys'] is not None:
            conf['update_keys'] = list(dump['update_keys'])
        kw = {}
        if dump['batch'] is not None:
            kw['batch_size'] = dump['batch']
        if dump['bloom'] is not None:
            kw['use_bloom_filter'] = dump['bloom']
        if dump['updated_column']:
            kw['updated_column'] = '_upd'
        rows_in = copy.deepcopy(dump['rows'])
        tabs_ = [copy.deepcopy(other_rows), rows_in] if other_first else [rows_in, copy.deepcopy(other_rows)]
        try:
            with quiet():
                step = dataflows.dump_to_sql({'t1': conf}, engine=url, **kw)
                out, dp, _ = Flow(FeedStep(desc, tabs_), step).results(on_error=None)
                step.engine.dispose()
        except Exception as e:
            raise unexpected(e, 'dump %d (%s)' % (di, mode))
        if other_first:
            out = [out[1], out[0]]
        if len(out) != 2 or out[1] != other_rows:
            raise Violation('downstream:unmapped-resource-changed', {'dump': di, 'got': out[1:] and out[1][:3]})
        for tname in ('t1_archive', 't10'):
            try:
                nb = read_table(url, other_fields, tname)
            except Exception as e:
                raise Violation('neighbouring-table-lost', {'table': tname, 'dump': di, 'mode': mode, 'error': repr(e)[:200]})
            if sorted(canon_row(r) for r in nb) != sorted(canon_row(r) for r in other_rows):
                raise Violation('neighbouring-table-changed', {'table': tname, 'dump': di, 'mode': mode, 'rows': len(nb)})
        # ---- model
        eff = mode or 'rewrite'
        flags = []
        if eff == 'rewrite':
            model = [dict(r) for r in dump['rows']]
            flags = [False] * len(dump['rows'])
        elif eff == 'append':
            model += [dict(r) for r in dump['rows']]
            flags = [False] * len(dump['rows'])
        else:
            keys = dump['update_keys'] if dump['update_keys'] is not None else case['pk']
            ins = upd = 0
            for r in dump['rows']:
                hits = [m for m in model if all(m[k] == r[k] for k in keys)]
                if hits:
                    for m in hits:
                        m.update(r)
                    flags.append(True)
                    upd += 1
                else:
                    model.append(dict(r))
                    flags.append(False)
                    ins += 1
            if ins and upd and di > 0:
                both = True
        classes.append('mode:' + eff)
        # ---- table state
        try:
            table = read_table(url, fields)
        except Exception as e:
            raise Violation('table-unreadable', {'error': repr(e)[:300], 'dump': di})
        got = sorted(canon_row(r) for r in table)
        exp = sorted(canon_row(r) for r in model)
        if got != exp:
            kind = 'row-count' if len(got) != len(exp) else 'row-values'
            raise Violation('%s:table-%s' % (eff, kind), {'dump': di, 'got': got[:6], 'expected': exp[:6],
                                                         'n_got': len(got), 'n_expected': len(exp)})
        # ---- rows passed downstream
        down = out[0]
        if len(down) != len(dump['rows']):
            raise Violation('downstream:row-count', {'dump': di, 'got': len(down), 'expected': len(dump['rows'])})
        for g, e, fl in zip(down, dump['rows'], flags):
            g = dict(g)
            if dump['updated_column']:
                if '_upd' not in g:
                    raise Violation('downstream:updated-flag-missing', {'dump': di})
                gf = g.pop('_upd')
                if bool(gf) != fl:
                    raise Violation('downstream:updated-flag-untruthful', {'dump': di, 'row': e, 'flag': gf, 'model': fl})
            if set(g) != set(e):
                raise Violation('downstream:row-keys', {'got': sorted(g), 'expected': sorted(e)})
            for k in e:
                if not val_eq(g[k], e[k]):
                    t = {f['name']: f['type'] for f in fields}[k]
                    sig = 'downstream:value-changed:%s' % t
                    if t in ('array', 'object') and isinstance(g[k], str):
                        sig = 'downstream:array-object-became-json-string'
                    raise Violation(sig, {'dump': di, 'field': k, 'got': g[k], 'expected': e[k]})
    return Info(nontrivial=len(case['dumps']) >= 2 and both, classes=classes, evals=len(case['dumps']))
