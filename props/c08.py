"""C08 - an interrupted checkpoint is never used (fault enumeration).

Every I/O event performed while saving a checkpoint (makedirs / open / write / flush / close / rename) is
a crash point: a forked child is killed there (buffers lost | flushed | half of that write on disk) or the
call raises OSError; additionally a user step raises at chosen rows upstream / downstream of the
checkpoint.  Afterwards: a stream.ndjson that exists is complete (byte-identical to the uninterrupted
one) and the next run (fresh Flow, same directory) returns exactly the uninterrupted result, recomputing
from the sources whenever no checkpoint was committed."""
import os
import copy

from hypothesis import strategies as st

from vlib import gen, faults
from vlib.compare import rows_eq
from vlib.kernel import Violation, Info, dataflows, quiet, Flow, FeedStep, ProcessorError, root_cause

PID = 'C08'
LEVEL = 'fault_enumeration'
LEVEL_TEXT = ('fault enumeration: for each generated pipeline, all crash points while the checkpoint is written (I/O events, '
              'coalescing rule in the evidence) x kill/exception variants, plus exceptions raised by steps at first/middle/last '
              'row upstream and downstream, are enumerated exhaustively; the pipelines are sampled')
TECHNIQUE = 'property-based generation of pipelines + exhaustive crash-point / fault enumeration per pipeline (fork + os._exit, injected exceptions)'
RULE = ('cases = packages of 1-3 resources x 0-20 rows, pipeline source, f, checkpoint(c), g; per case: reference run, '
        'recording run, then one forked run per (I/O event, variant in lost/flushed/mid/raise) and one in-process run per '
        '(raising step position up/down, row first/middle/last/end); runs of consecutive write+flush pairs on the file are '
        'represented by first/middle/last. non-trivial: kill strictly between the first write and the rename; distinct by '
        '(case hash, event number, variant)')
ASSUMPTIONS = [
    'crash points are Python-level I/O calls; kernel-level reordering and power loss after rename without fsync are not modelled',
    'values are strings / integers / dates (the extended-JSON value encoding itself is C07)',
]
BUDGET = {'quick': dict(examples=96, shards=16, seconds=80, chunk=6),
          'thorough': dict(examples=1600, shards=16, seconds=1200, chunk=10)}


@st.composite
def cases_(draw):
    n = draw(st.integers(1, 3))
    names = ['r%d' % i for i in range(n)]
    pkg = []
    for nm in names:
        k = draw(st.sampled_from([0, 1, 2, 5, 20]))
        pkg.append(draw(gen.resource(nm, max_fields=3, min_rows=k, max_rows=k, names=['a', 'b', 'c d', 'é'],
                                     types=['string', 'integer', 'date'], hard=True)))
    return {'pkg': pkg}


def cases(tier):
    return cases_()


class Counter:
    def __init__(self):
        self.pulled = 0
        self.f_rows = 0


def build_flow(case, cp_root, counter, fault=None):
    """fault: None | ('up'|'down', resource index, row index or 'end')"""
    pkg = case['pkg']
    desc = gen.descriptor_of(pkg)
    tables = gen.tables_of(pkg)

    def counting(rows_list):
        def it(rows):
            for r in rows:
                counter.pulled += 1
                yield r
        return [it(t) for t in rows_list]

    class Src(FeedStep):
        def process_resources(self, resources):
            yield from dataflows.DataStreamProcessor.process_resources(self, resources)
            for t in counting(copy.deepcopy(tables)):
                yield t

    def f(row):
        if fault and fault[0] == 'rowfn' and counter.f_rows == fault[1]:
            # the classic bug in a row function: next() on an exhausted iterator (raises StopIteration)
            next(iter(()))
        counter.f_rows += 1
        row = dict(row)
        for k, v in row.items():
            if isinstance(v, int) and not isinstance(v, bool):
                row[k] = v + 1
        return row

    def faulty(where):
        def step(package):
            yield package.pkg
            for ri, res in enumerate(package):
                def gen_rows(res=res, ri=ri):
                    for i, r in enumerate(res):
                        if fault and fault[0] == where and fault[1] == ri and fault[2] == i:
                            raise ValueError('injected at %s row %d' % (where, i))
                        yield r
                    if fault and fault[0] == where and fault[1] == ri and fault[2] == 'end':
                        raise ValueError('injected at %s end of resource' % where)
                yield gen_rows()
            if fault and fault[0] == where and fault[1] == 'pkg' and fault[2] == 'end':
                raise ValueError('injected at %s after all resources' % where)
        return step

    def g(rows):
        for i, r in enumerate(rows):
            r = dict(r)
            r['_g'] = True
            if fault and fault[0] == 'invalid' and i == fault[1]:
                # a row that does not fit its declared schema reaches the end of the flow: results() fails on it
                for k, v in r.items():
                    if isinstance(v, int) and not isinstance(v, bool):
                        r[k] = 'certainly not an integer'
                        counter.invalid = getattr(counter, 'invalid', 0) + 1
                        break
            yield r
    steps = [Src(desc, tables), f]
    if fault and fault[0] == 'up':
        steps.append(faulty('up'))
    steps.append(dataflows.checkpoint('cp', checkpoint_path=cp_root))
    if fault and fault[0] == 'down':
        steps.append(faulty('down'))
    steps.append(g)
    return Flow(*steps)


def run_flow(case, cp_root, fault=None):
    c = Counter()
    with quiet():
        flow = build_flow(case, cp_root, c, fault)
        # (the terminal validation of results() is part of the run only for the 'invalid row' fault)
        res, dp, _ = flow.results() if (fault and fault[0] == 'invalid') else flow.results(on_error=None)
    return res, dp.descriptor, c


def check(case, ctx):
    pkg = case['pkg']
    total = sum(len(r['rows']) for r in pkg)
    root = ctx.tmpdir()
    ref_dir = os.path.join(root, 'ref')
    try:
        ref_rows, ref_desc, c0 = run_flow(case, ref_dir)
    except Exception as e:
        raise Violation('uninterrupted-run-failed', {'error': repr(root_cause(e))[:300]})
    ref_file = os.path.join(ref_dir, 'cp', 'stream.ndjson')
    if not os.path.exists(ref_file) or c0.pulled != total:
        raise Violation('uninterrupted-run-left-no-checkpoint', {'pulled': c0.pulled})
    with open(ref_file, 'rb') as fh:
        ref_bytes = fh.read()
    # sanity of the property's other half: resuming does not touch the sources
    rows2, desc2, c2 = run_flow(case, ref_dir)
    if c2.pulled != 0 or c2.f_rows != 0:
        raise Violation('resume-executed-upstream-steps', {'pulled': c2.pulled})
    if len(rows2) != len(ref_rows) or not all(rows_eq(a, b) for a, b in zip(rows2, ref_rows)):
        raise Violation('resume-differs-from-first-run', {})

    def after(cp_root, label):
        final = os.path.join(cp_root, 'cp', 'stream.ndjson')
        had = os.path.exists(final)
        if had:
            with open(final, 'rb') as fh:
                b = fh.read()
            if b != ref_bytes:
                raise Violation('incomplete-checkpoint-committed', dict(label, size=len(b), complete_size=len(ref_bytes)))
        try:
            rows, desc, c = run_flow(case, cp_root)
        except Exception as e:
            raise Violation('next-run-fails', dict(label, error=repr(root_cause(e))[:300]))
        if len(rows) != len(ref_rows) or not all(rows_eq(a, b) for a, b in zip(rows, ref_rows)):
            raise Violation('next-run-differs-from-uninterrupted-run',
                            dict(label, n_rows=[len(t) for t in rows], n_expected=[len(t) for t in ref_rows], had_checkpoint=had))
        if [r['name'] for r in desc['resources']] != [r['name'] for r in ref_desc['resources']]:
            raise Violation('next-run-descriptor-differs', label)
        if not had and (c.pulled != total or c.f_rows != total):
            raise Violation('next-run-did-not-recompute-from-sources', dict(label, pulled=c.pulled, expected=total))
        # "a checkpoint that is picked up is always complete": the checkpoint this recomputing run saved (next to whatever
        # the interrupted run left behind) is the complete one, and the run after it - which picks it up - agrees as well
        if not had:
            if not os.path.exists(final):
                raise Violation('recomputing-run-left-no-checkpoint', label)
            with open(final, 'rb') as fh:
                b = fh.read()
            if b != ref_bytes:
                raise Violation('checkpoint-saved-after-an-interrupted-run-is-not-the-complete-one',
                                dict(label, size=len(b), complete_size=len(ref_bytes)))
            try:
                rows3, desc3, c3 = run_flow(case, cp_root)
            except Exception as e:
                raise Violation('run-after-next-fails', dict(label, error=repr(root_cause(e))[:300]))
            if len(rows3) != len(ref_rows) or not all(rows_eq(a, b) for a, b in zip(rows3, ref_rows)):
                raise Violation('resumed-run-after-an-interrupted-one-differs', dict(label, n_rows=[len(t) for t in rows3]))
        return had

    # ---- kills / I/O errors at every event of the checkpoint writer
    rec_dir = os.path.join(root, 'rec')

    def make(cp_root):
        def fn():
            run_flow(case, cp_root)
        return fn
    status, events = faults.run_child(make(rec_dir), rec_dir, record=True)
    if status != 'completed':
        raise Violation('harness:recording-run-failed', {'status': status})
    # treat write+flush pairs as one kind so that per-row runs coalesce
    points = faults.crash_points([['write' if e[0] in ('write', 'flush') else e[0], e[1]] for e in events])
    first_write = next((i for i, e in enumerate(events, 1) if e[0] == 'write'), None)
    rename_at = next((i for i, e in enumerate(events, 1) if e[0] == 'rename'), None)
    n_runs = 0
    subkeys = []
    committed = 0
    for k in points:
        kind = events[k - 1][0]
        variants = ['lost', 'flushed', 'raise'] + (['mid'] if kind == 'write' else [])
        for v in variants:
            d = os.path.join(root, 'k%d%s' % (k, v))
            status, _ = faults.run_child(make(d), d, crash_at=k, variant=v)
            n_runs += 1
            if status != ('error:3' if v == 'raise' else 'crashed'):
                raise Violation('harness:crash-point-not-reached', {'event': k, 'status': status, 'kind': kind, 'variant': v})
            had = after(d, {'crash_event': k, 'event': events[k - 1], 'variant': v})
            committed += 1 if had else 0
            if first_write and rename_at and first_write < k <= rename_at:
                subkeys.append('%d%s' % (k, v))
    # ---- exceptions raised by steps upstream / downstream of the checkpoint
    n_exc = 0
    for where in ('up', 'down'):
        for ri, r in enumerate(pkg):
            n = len(r['rows'])
            for pos in sorted({0, n // 2, n - 1} & set(range(n))) + ['end']:
                d = os.path.join(root, 'x%s%d%s' % (where, ri, pos))
                try:
                    run_flow(case, d, fault=(where, ri, pos))
                except ProcessorError:
                    pass
                except Exception as e:
                    raise Violation('step-exception-not-wrapped', {'type': type(e).__name__})
                else:
                    raise Violation('failing-step-yields-successful-run', {'where': where, 'resource': ri, 'row': pos})
                n_exc += 1
                had = after(d, {'raising_step': where, 'resource': ri, 'row': pos})
                if had:
                    raise Violation('checkpoint-committed-although-a-step-failed-while-it-was-written',
                                    {'raising_step': where, 'resource': ri, 'row': pos})
                subkeys.append('x%s%d%s' % (where, ri, pos))
    # a row function before the checkpoint that raises StopIteration at its k-th row: the run fails, nothing is committed
    for k in sorted({0, total // 2, total - 1} & set(range(total))):
        d = os.path.join(root, 'xrowfn%d' % k)
        try:
            run_flow(case, d, fault=('rowfn', k))
        except ProcessorError:
            pass
        except Exception as e:
            raise Violation('step-exception-not-wrapped', {'type': type(e).__name__})
        else:
            raise Violation('failing-step-yields-successful-run', {'where': 'row function raising StopIteration', 'row': k})
        n_exc += 1
        if after(d, {'raising_step': 'row function (StopIteration)', 'row': k}):
            raise Violation('checkpoint-committed-although-a-step-failed-while-it-was-written',
                            {'raising_step': 'row function (StopIteration)', 'row': k})
        subkeys.append('xrowfn%d' % k)
    # a row that does not fit its schema arrives at the end of the flow (first / middle row of the first resource): results()
    # raises while the checkpoint upstream is still being written - nothing is committed
    for k in sorted({0, len(pkg[0]['rows']) // 2} & set(range(len(pkg[0]['rows'])))):
        d = os.path.join(root, 'xinvalid%d' % k)
        try:
            _rows, _desc, cnt_ = run_flow(case, d, fault=('invalid', k))
        except ProcessorError:
            n_exc += 1
            if after(d, {'raising_step': 'terminal validation of results()', 'row': k}):
                raise Violation('checkpoint-committed-although-a-step-failed-while-it-was-written',
                                {'raising_step': 'terminal validation of results()', 'row': k})
            subkeys.append('xinvalid%d' % k)
        except Exception as e:
            raise Violation('step-exception-not-wrapped', {'type': type(e).__name__})
        else:
            if getattr(cnt_, 'invalid', 0):
                raise Violation('failing-step-yields-successful-run', {'where': 'terminal validation of results()', 'row': k})
    # a step before the checkpoint failing in its own end-of-stream code (after its last resource was passed on)
    d = os.path.join(root, 'xuppkgend')
    try:
        run_flow(case, d, fault=('up', 'pkg', 'end'))
    except ProcessorError:
        pass
    else:
        raise Violation('failing-step-yields-successful-run', {'where': 'up', 'resource': 'all', 'row': 'end'})
    n_exc += 1
    if after(d, {'raising_step': 'up', 'resource': 'all', 'row': 'end'}):
        raise Violation('checkpoint-committed-although-a-step-failed-while-it-was-written',
                        {'raising_step': 'up', 'resource': 'all', 'row': 'end'})
    subkeys.append('xuppkgend')
    # a step failing upstream of a checkpoint that is followed by parallelize (run under the scheduler shim of C18, shared
    # with C04): the checkpoint in between must not be committed
    from props import c04
    for mode, two in (('process', True), ('results', False)):
        px = {'row': 1 + (total % 3), 'exc': 'ValueError', 'N': 1 + (total % 2), 'schedule': [], 'mid': 'checkpoint', 'two': two}
        if c04.run_parallelize_fault(case, ctx, mode, px, {'fault': 'upstream-of-checkpoint-and-parallelize'})[0]:
            n_exc += 1
            subkeys.append('xpar%s' % mode)
    classes = ['resources=%d' % len(pkg), 'rows~%d' % (10 * (total // 10)), 'events~%d' % (10 * (len(events) // 10))]
    return Info(nontrivial=len(subkeys) >= 2, classes=classes, evals=n_runs + n_exc + 2, subkeys=subkeys,
                extra={'crash_runs': n_runs, 'exception_runs': n_exc, 'io_events_recorded': len(events),
                       'crash_runs_after_which_a_complete_checkpoint_existed': committed,
                       'pipelines_enumerated_exhaustively': 1})
