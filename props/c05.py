"""C05 - observers are transparent and capture the complete stream at their position.

Oracles: (differential) rows and schemas of Flow(P, O, S).results() equal those of Flow(P, S).results();
(completeness) what O persisted / reported equals Flow(P).results() - decoded by the harness's own
decoders (vlib/decode.py for dumps, line-wise ndjson parse for stream / checkpoint files)."""
import re
import os
import json
import copy
import fractions

from hypothesis import strategies as st

from vlib import gen, gen_programs as gp, decode
from vlib.compare import schema_sig, rows_eq
from vlib.kernel import (Violation, Info, unexpected, dataflows, quiet, Flow, root_cause, FeedStep)
from props import c03

PID = 'C05'
LEVEL = 'exploration'
RULE = ('cases = a well-typed program of 1-6 steps (biased to steps that discard rows or whole resources: delete_resource, '
        'filter_rows, join with source_delete, concatenate, select_fields, deduplicate, sort_rows, a rows function that '
        'swallows everything) x an observer O (printer, dump_to_path csv/json, dump_to_zip, stream(file), first-run '
        'checkpoint, finalizer with/without stats, update_stats, validate) inserted at every drawn position; non-trivial: the '
        'suffix after O removes >=1 row or resource that O must still capture, or O is not last; distinct by case hash')
ASSUMPTIONS = [
    '"schema" = ordered (field name, type) list + primaryKey + missingValues; file dumpers are documented to stamp '
    'serialisation properties (path suffix, format, dialect, encoding, per-field format) onto the descriptor they pass on',
    'rows are compared after results()\' own validation (the observation point the property names)',
    'programs whose baseline (without the observer) does not pass results() validation are outside the domain (rejected)',
]
BUDGET = {'quick': dict(examples=1600, shards=16, seconds=80),
          'thorough': dict(examples=60000, shards=16, seconds=1200)}

OBSERVERS = ['printer', 'dump_to_path', 'dump_to_path_json', 'dump_to_zip', 'stream_file', 'checkpoint',
             'finalizer', 'finalizer_stats', 'update_stats', 'validate']
DISCARD = ['delete_resource', 'filter_rows', 'join', 'concatenate', 'select_fields', 'set_pk_dedupe', 'sort_rows', 'rows_fn']
KINDS = [k for k in gp.ALL_KINDS if k not in ('package_fn',)] + DISCARD * 3 + ['row_fn'] * 2


@st.composite
def cases_(draw):
    if gen.rare(draw, 70):
        # focused class: a join whose source resource is empty (nothing to index), observers in front of it
        pkg = draw(gp.input_package(2, 3, sizes=(1, 3, 5), types=['string', 'integer', 'number']))
        pkg[0]['rows'] = []
        prog = draw(gp.programs(1, 3, kinds=['join', 'join', 'filter_rows', 'join'], pkg=pkg, favour_mutators=False))
    else:
        pkg = draw(gp.input_package(1, 3, sizes=(0, 0, 0, 1, 2, 3, 4, 5, 9, 10, 12, 14, 30, 101), types=['string', 'integer', 'number', 'date', 'boolean']))
        prog = draw(gp.programs(1, 6, kinds=KINDS, pkg=pkg, favour_mutators=False))
    steps = prog['steps']
    for s in steps:
        if s['k'] == 'rows_fn' and draw(st.booleans()):
            s['fn'] = 'swallow'
        elif s['k'] == 'rows_fn' and draw(st.booleans()):
            # a rows function that stops reading each resource after its first n rows (it simply returns)
            s['fn'] = 'head'
            s['n'] = draw(st.sampled_from([0, 1, 2]))
    return {'pkg': prog['pkg'], 'steps': steps, 'observer': draw(st.sampled_from(OBSERVERS)),
            'at': draw(st.integers(0, len(steps))), 'seq': draw(st.booleans()),
            # observer parameters: the file name given to stream(), the printer's block size
            'oname': draw(st.sampled_from(gp.STREAM_FILE_NAMES)), 'onum': draw(st.sampled_from([2, 3, 10])),
            # fields carry titles; an unrelated dump with use_titles=True ran earlier in the same process (step instances
            # share nothing: the later, default dump still writes field names)
            'titles': draw(st.booleans()), 'primer': draw(st.sampled_from([None, None, 'use_titles', 'older-dump'])),
            # resource paths that differ only behind their first dot (data.2019.csv, data.2020.csv, ...)
            'dotted_paths': draw(st.integers(0, 3)) == 0}


def cases(tier):
    return cases_()


def json_native(v):
    if v is None or isinstance(v, (bool, int, float, str)):
        return True
    if isinstance(v, (list, tuple)):
        return all(json_native(x) for x in v)
    if isinstance(v, dict):
        return all(isinstance(k, str) and json_native(x) for k, x in v.items())
    return False


def observer_spec(name, case=None):
    case = case or {}
    if name == 'stream_file':
        return {'k': name, 'name': case.get('oname', 'stream.ndjson')}
    if name == 'printer':
        return {'k': 'printer', 'num_rows': case.get('onum', 2), 'fields': ['id', 'g']}
    if name == 'dump_to_path_json':
        return {'k': 'dump_to_path', 'format': 'json'}
    if name == 'dump_to_path':
        return {'k': 'dump_to_path', 'format': 'csv'}
    if name == 'finalizer_stats':
        return {'k': 'finalizer', 'with_stats': True}
    if name == 'finalizer':
        return {'k': 'finalizer', 'with_stats': False}
    if name == 'update_stats':
        return {'k': 'update_stats', 'key': 'observer_stat', 'value': 42}
    if name == 'printer':
        return {'k': 'printer', 'num_rows': 2, 'fields': ['id', 'g']}
    return {'k': name}


def run(desc0, tables0, specs, ctx, tag, seq, extra_before=None, replace=None, env=None):
    env = env or gp.Env(ctx, tag)
    steps = []
    for i, s in enumerate(specs):
        if extra_before is not None and i == extra_before[0]:
            steps.append(extra_before[1])
        steps.append(replace[i] if replace and i in replace else gp.build(s, env))
    with quiet():
        rows, dp, stats = Flow(FeedStep(desc0, tables0, sequential=seq), *steps).results()
    return rows, copy.deepcopy(dp.descriptor), stats, env


def sig(desc):
    out = []
    for r in desc['resources']:
        pk = r['schema'].get('primaryKey', [])
        out.append((r['name'], [(f['name'], f.get('type')) for f in r['schema']['fields']],
                    pk if isinstance(pk, list) else [pk], r['schema'].get('missingValues', [''])))
    return out


def parse_ndjson(path):
    """-> (descriptor, [rows per resource]) using the documented layout: descriptor line, rows, blank separators."""
    with open(path, encoding='utf-8') as f:
        lines = f.read().split('\n')
    desc = json.loads(lines[0])
    tables, cur = [], []
    for line in lines[1:]:
        if line.strip() == '':
            tables.append(cur)
            cur = []
            if len(tables) == len(desc['resources']):
                break
        else:
            cur.append(json.loads(line))
    return desc, tables


def check(case, ctx):
    pkg, specs, p = case['pkg'], case['steps'], case['at']
    desc0 = gen.descriptor_of(pkg)
    if case.get('titles'):
        for r in desc0['resources']:
            for f in r['schema']['fields']:
                f['title'] = 'Title of ' + f['name']
    if case.get('dotted_paths'):
        for i, r in enumerate(desc0['resources']):
            r['path'] = 'data.%d.csv' % (2019 + i)
    if case.get('primer') == 'use_titles':
        with quiet():
            Flow([{'p': 1, 'q': 'x'}], dataflows.set_type('p', title='P title'),
                 dataflows.dump_to_path(os.path.join(ctx.tmpdir(), 'primer'), use_titles=True)).process()
    tables0 = gen.tables_of(pkg)
    prog = [s['k'] for s in specs]
    # a step that stops reading a resource early is only meaningful over sources that can be read independently of each
    # other (the harness' one-stream emulation has no notion of skipping; unstream, the real one, skips)
    early = any(s_['k'] == 'rows_fn' and s_.get('fn') == 'head' for s_ in specs)
    seq_ = bool(case['seq']) and not early
    obs = observer_spec(case['observer'], case)
    classes = ['observer:' + case['observer'], 'at-end' if p == len(specs) else 'not-last'] + sorted({'k:' + k for k in prog[p:]})
    try:
        base_rows, base_desc, _, _ = run(desc0, tables0, specs, ctx, 'b', seq_)
        pos_rows, pos_desc, pos_stats, _ = run(desc0, tables0, specs[:p], ctx, 'p', seq_)
    except Exception as e:
        return Info(rejected=True, classes=['rejected:baseline-fails:' + type(root_cause(e)).__name__])
    # a tap right before a finalizer records how many rows had passed when the callback fired
    seen = {'n': 0, 'at_callback': None}
    extra = None
    with_obs = specs[:p] + [obs] + specs[p:]
    if obs['k'] == 'finalizer':
        def tap(rows):
            for r in rows:
                seen['n'] += 1
                yield r
        extra = (p, tap)
        calls = []
        if obs.get('with_stats'):
            def cb(stats):
                seen['at_callback'] = seen['n']
                calls.append(('called', copy.deepcopy(stats)))
        else:
            def cb():
                seen['at_callback'] = seen['n']
                calls.append(('called', None))
        replace = {p: dataflows.finalizer(cb)}
    else:
        replace = None
    env_o = None
    if case.get('primer') == 'older-dump' and obs['k'] in ('dump_to_path', 'dump_to_zip') and not replace and \
            not any(s_['k'] == 'checkpoint' for s_ in specs):       # (a checkpoint would make the second run a resumed one)
        # the observer's target already holds an older dump of the same shape (same sizes, other contents: the rows in
        # reverse order); what it persists now is the stream of THIS run
        env_o = gp.Env(ctx, 'o')
        try:
            run(desc0, [list(reversed(t)) for t in tables0], with_obs, ctx, 'o', seq_, env=env_o)
        except Exception:
            env_o = None
        else:
            env_o.n = 0
            env_o.captures = {}
            classes.append('over-an-older-dump')
    try:
        rows, desc, stats, env = run(desc0, tables0, with_obs, ctx, 'o', seq_, extra_before=extra, replace=replace,
                                     env=env_o)
    except Exception as e:
        why = gp.data_dependent_rejection(e)
        if why:
            # e.g. a join that collects dates into an array: outside the file dumpers' domain (JSON-native nesting)
            return Info(rejected=True, classes=['rejected:' + why])
        raise unexpected(e, 'program with observer %s at %d: %s' % (case['observer'], p, '/'.join(prog)))
    # ---- transparency
    if sig(desc) != sig(base_desc):
        raise Violation('transparency:schema:%s' % obs['k'], {'with': sig(desc), 'without': sig(base_desc), 'program': prog, 'at': p})
    # steps that emit Python floats into 'number' fields (true division of integers): every validating step
    # (a dumper, validate, results() itself) canonicalises such a float to the Decimal of its repr, which is the same
    # number; float arithmetic downstream of it may then differ from Decimal arithmetic in the last bit.  Only in that
    # class are numbers compared with a relative tolerance of 1e-12; everywhere else rows are compared exactly.
    floaty = any((s_['k'] == 'add_computed' and s_.get('operation') == 'avg') or
                 (s_['k'] == 'join' and list(s_['fields'].values())[0]['aggregate'] in ('avg', 'median')) or
                 (s_['k'] == 'iterable' and s_.get('late_type') == 'float') for s_ in specs[:p])
    if floaty:
        classes.append('float-valued-number-upstream-of-observer')
    same = (len(rows) == len(base_rows) and all(rows_eq(a_, b_, rel=fractions.Fraction(1, 10 ** 12)) for a_, b_ in zip(rows, base_rows))) if floaty \
        else rows == base_rows
    if not same:
        i = next((k for k in range(min(len(rows), len(base_rows))) if rows[k] != base_rows[k]), None)
        d = None
        if i is not None:
            j = next((k for k in range(min(len(rows[i]), len(base_rows[i]))) if rows[i][k] != base_rows[i][k]), None)
            d = {'resource': i, 'n_with': len(rows[i]), 'n_without': len(base_rows[i]),
                 'with': rows[i][j] if j is not None else None, 'without': base_rows[i][j] if j is not None else None}
        raise Violation('transparency:rows:%s' % obs['k'], {'diff': d, 'program': prog, 'at': p})
    # ---- completeness at the observer's position
    if obs['k'] in ('printer', 'finalizer') and any(s_['k'] == 'rows_fn' and s_.get('fn') == 'head' for s_ in specs[p:]):
        # observers that only REPORT what passes them report what the steps behind them asked for; the ones that PERSIST
        # the stream (dumps, stream files, checkpoints) hold all of it even then
        return Info(nontrivial=True, classes=classes + ['early-stop-behind-a-reporting-observer'])
    exp_names = [r['name'] for r in pos_desc['resources']]
    exp_counts = [len(t) for t in pos_rows]
    k = obs['k']
    nth = sum(1 for s_ in specs[:p] if s_['k'] == k)       # the observer's own capture among same-kind steps
    if k in ('dump_to_path', 'dump_to_zip'):
        loc = env.captures[k][nth]
        store = decode.Store(loc)
        try:
            try:
                wd = decode.read_descriptor(store)
            except decode.DecodeError as e:
                raise Violation('completeness:%s:no-descriptor' % k, {'error': str(e), 'program': prog, 'at': p})
            if [r['name'] for r in wd['resources']] != exp_names:
                raise Violation('completeness:%s:resources' % k, {'got': [r['name'] for r in wd['resources']],
                                                                  'expected': exp_names, 'program': prog, 'at': p})
            fmt = obs.get('format', 'csv')
            for wr, exp, rd in zip(wd['resources'], pos_rows, pos_desc['resources']):
                try:
                    got, _ = decode.decode_resource(store, wr)
                except decode.DecodeError as e:
                    raise Violation('completeness:%s:undecodable' % k, {'error': str(e)[:300], 'program': prog})
                if len(got) != len(exp):
                    raise Violation('completeness:%s:row-count' % k, {'resource': wr['name'], 'got': len(got),
                                                                      'expected': len(exp), 'program': prog, 'at': p})
                types = {f['name']: f['type'] for f in rd['schema']['fields']}
                for g, e in zip(got, exp):
                    for name, t in types.items():
                        if t in ('array', 'object') and not json_native(e.get(name)):
                            # (arrays / objects holding dates, decimals ... - e.g. collected by a join - are outside the
                            # file formats' domain: their members have no declared type to be read back with)
                            continue
                        if not c03.value_eq(g.get(name), c03.norm_value(e.get(name), t, fmt), t, fmt):
                            raise Violation('completeness:%s:value' % k, {'field': name, 'got': g.get(name), 'expected': e.get(name),
                                                                          'program': prog})
        finally:
            store.close()
    elif k in ('stream_file', 'checkpoint'):
        path = env.captures[k][nth]
        if not os.path.exists(path):
            raise Violation('completeness:%s:file-not-committed' % k, {'program': prog, 'at': p,
                                                                      'dir': sorted(os.listdir(os.path.dirname(path))) if os.path.isdir(os.path.dirname(path)) else None})
        sd, tables = parse_ndjson(path)
        if [r['name'] for r in sd['resources']] != exp_names or [len(t) for t in tables] != exp_counts:
            raise Violation('completeness:%s:content' % k, {'got': [[r['name'] for r in sd['resources']], [len(t) for t in tables]],
                                                            'expected': [exp_names, exp_counts], 'program': prog, 'at': p})
        for t, exp in zip(tables, pos_rows):
            for g, e in zip(t, exp):
                gid = g.get('id')
                if isinstance(gid, dict) and len(gid) == 1 and next(iter(gid)).startswith('type{'):
                    gid = next(iter(gid.values()))          # typed-JSON wrapper of the stream format
                if 'id' in e and str(gid) != str(e['id']):
                    raise Violation('completeness:%s:row-identity' % k, {'got': g.get('id'), 'expected': e['id'], 'program': prog})
    elif k == 'printer':
        cap = env.captures.get('printer', [])
        n_res = len(exp_names)
        headers = [x[1] for x in cap if x[0] == 'header']
        tables = [x[1] for x in cap if x[0] == 'table']
        # printers that are part of the program itself report first/last in resource-major order; keep ours
        if nth or sum(1 for s_ in specs[p:] if s_['k'] == 'printer'):
            return_early = True
        else:
            return_early = False
        if return_early:
            headers, tables = exp_names, []          # several printers interleave their output: only transparency is checked
        elif headers != exp_names or len(tables) != len(exp_names):
            raise Violation('completeness:printer:resources', {'headers': headers, 'expected': exp_names, 'tables': len(tables),
                                                               'program': prog, 'at': p})
        for text, n, exp, rd in zip(tables, exp_counts, pos_rows, pos_desc['resources']):
            idx = [int(m.group(1)) for m in re.finditer(r'^\s*(\d+)(?:\s|$)', text, re.M)]
            last = max(idx) if idx else 0
            if last != n:
                raise Violation('completeness:printer:last-row-index', {'last_printed': last, 'rows': n, 'program': prog, 'at': p})
            if idx != sorted(set(idx)) or (idx and (idx[0] != 1 or idx[-1] != n)):
                # the table shows rows in stream order, starts with the first row and ends with the last one
                raise Violation('completeness:printer:row-order', {'printed_indexes': idx[:40], 'rows': n, 'program': prog, 'at': p})
            # printed cells show the stream as it is at the printer's position (id / g columns, when both exist)
            fnames = [f['name'] for f in rd['schema']['fields']]
            if 'id' in fnames and 'g' in fnames:
                cols = [x for x in fnames if x in ('id', 'g')]        # printed in schema order
                for m in re.finditer(r'^\s*(\d+)\s+(\S+)\s+(\S+)\s*$', text, re.M):
                    i = int(m.group(1))
                    want = (str(exp[i - 1].get(cols[0])), str(exp[i - 1].get(cols[1])))
                    if (m.group(2), m.group(3)) != want:
                        raise Violation('completeness:printer:printed-values', {'row': i, 'printed': [m.group(2), m.group(3)],
                                                                               'at_position': list(want), 'program': prog, 'at': p})
    elif k == 'update_stats':
        if stats.get('observer_stat') != 42:
            raise Violation('completeness:update_stats:missing-from-stats', {'stats': stats, 'program': prog})
    elif k == 'finalizer':
        cap = calls
        if len(cap) != 1:
            raise Violation('finalizer:callback-count', {'count': len(cap), 'program': prog, 'at': p})
        if seen['n'] != sum(exp_counts):
            raise Violation('finalizer:rows-before-it', {'seen': seen['n'], 'expected': sum(exp_counts), 'program': prog, 'at': p})
        if obs.get('with_stats'):
            got = cap[0][1]
            for key, val in pos_stats.items():
                if got.get(key) != val:
                    raise Violation('finalizer:stats', {'got': got, 'expected_superset': pos_stats, 'program': prog})
    # every persisting observer anywhere in the pipeline completed (descriptor written / file committed)
    for path in env.captures.get('dump_to_path', []):
        if not os.path.exists(os.path.join(path, 'datapackage.json')):
            raise Violation('observer-in-pipeline-never-completed:dump_to_path', {'program': prog, 'observer': case['observer'], 'at': p})
    for path in env.captures.get('dump_to_zip', []):
        try:
            st_ = decode.Store(path)
            ok = st_.exists('datapackage.json')
            st_.close()
        except Exception:
            ok = False
        if not ok:
            raise Violation('observer-in-pipeline-never-completed:dump_to_zip', {'program': prog, 'observer': case['observer'], 'at': p})
    for key in ('stream_file', 'checkpoint'):
        for path in env.captures.get(key, []):
            if not os.path.exists(path):
                raise Violation('observer-in-pipeline-never-completed:%s' % key, {'program': prog, 'observer': case['observer'], 'at': p})
    # the finalizer must fire after the last row has passed it: checked through call order
    if k == 'finalizer' and seen.get('at_callback') not in (None, sum(exp_counts)):
        raise Violation('finalizer:fired-early', {'rows_seen_at_callback': seen['at_callback'], 'expected': sum(exp_counts)})
    removed = sum(exp_counts) > sum(len(t) for t in base_rows) or len(exp_names) > len(base_desc['resources'])
    return Info(nontrivial=removed or p < len(specs), classes=classes + (['suffix-discards'] if removed else []), evals=3)
