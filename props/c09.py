"""C09 - dump statistics describe the bytes on disk.

Oracle: recomputation from the written files (size, MD5, decoded row count) and from the written
datapackage.json; process() stats vs the written descriptor; second dump gives identical hashes."""
import copy
import os
import json

from hypothesis import strategies as st

from vlib import gen, gen_dump, decode
from vlib.kernel import Violation, Info, unexpected, dataflows, quiet, Flow, FeedStep

PID = 'C09'
LEVEL = 'exploration'
RULE = ('cases = the C03 packages (multi-byte text, empty resources, 1-3 resources) x format x path/zip x counters '
        '{default, renamed, dotted, individually None} x add_filehash_to_path x pretty_descriptor, each dumped twice into '
        'fresh locations; non-trivial: a non-ASCII cell | an empty resource | >=2 resources | a non-default option; '
        'distinct by canonical case hash')
ASSUMPTIONS = [
    'counter names are prefix-free (a dotted path never passes through another counter\'s leaf)',
    'the package hash is only required to be identical between two dumps of the same data (its exact preimage is not documented)',
]
BUDGET = {'quick': dict(examples=1600, shards=16, seconds=75),
          'thorough': dict(examples=50000, shards=16, seconds=1200)}

DEFAULTS = {'datapackage-rowcount': 'count_of_rows', 'datapackage-bytes': 'bytes', 'datapackage-hash': 'hash',
            'resource-rowcount': 'count_of_rows', 'resource-bytes': 'bytes', 'resource-hash': 'hash'}
MISSING = object()


@st.composite
def cases_(draw):
    opts = draw(gen_dump.dump_options(counters=True))
    opts['tfp'] = None
    alpha = opts['format'] == 'json'
    pkg = draw(gen_dump.dump_package(sort_fields=alpha, max_rows=6))
    if gen.rare(draw, 120):
        gen_dump.per_resource_formats(draw, pkg, opts)  # force_format=False: the format each path names
    elif gen.rare(draw, 80):
        # the Excel writer (a format that writes its file by name): plain cell types only
        opts['format'] = 'excel'
        pkg = draw(gen_dump.dump_package(sort_fields=True, max_rows=6, types=['string', 'integer', 'boolean']))
        for r in pkg:
            r.pop('res_extra', None)
    # 're-dump': the incoming descriptor already carries counters of an earlier dump (load -> process -> dump)
    stale = gen.rare(draw, 200)
    # the dumper's validator may be told to drop invalid rows: counters describe what was written
    drop = gen.rare(draw, 150)
    # the first of the two target directories already holds an older dump of the same package whose files have the
    # same sizes but other contents (the rows in reverse order)
    return {'pkg': pkg, 'opts': opts, 'stale_counters': stale, 'drop_invalid': drop, 'over_existing': gen.rare(draw, 200) or (opts['add_filehash_to_path'] and gen.rare(draw, 300))}


def cases(tier):
    return cases_()


def getp(obj, dotted):
    cur = obj
    for part in dotted.split('.'):
        if not isinstance(cur, dict) or part not in cur:
            return MISSING
        cur = cur[part]
    return cur


def counter_name(opts, key):
    c = opts.get('counters') or {}
    return c.get(key, DEFAULTS[key]) if key in c else DEFAULTS[key]


def dump_once(case, ctx, over_existing=False):
    pkg, opts = case['pkg'], case['opts']
    out_dir = ctx.tmpdir()
    if over_existing:
        step0, _ = gen_dump.build_dumper(dataflows, opts, out_dir)
        with quiet():
            Flow(FeedStep(gen.descriptor_of(pkg), [list(reversed(t)) for t in gen.tables_of(pkg)]), step0).process()
    if case.get('drop_invalid'):
        opts = dict(opts, validator_options={'on_error': dataflows.base.schema_validator.drop})
    step, loc = gen_dump.build_dumper(dataflows, opts, out_dir)
    desc = gen.descriptor_of(pkg)
    if case.get('stale_counters'):
        desc.update({'count_of_rows': 1234, 'bytes': 99999, 'hash': 'f' * 32})
        for rd in desc['resources']:
            rd.update({'count_of_rows': 77, 'bytes': 4242, 'hash': 'e' * 32})
    tables = gen.tables_of(pkg)
    if case.get('drop_invalid'):
        tables = invalid_tables(pkg)
    with quiet():
        dp, stats = Flow(FeedStep(desc, tables), step).process()
    return loc, stats


def invalid_tables(pkg):
    """The fed tables with one schema-violating row appended to every resource that has a non-string field."""
    out = []
    for r in pkg:
        rows = [dict(x) for x in r['rows']]
        bad = next((f['name'] for f in r['fields'] if f['type'] in ('integer', 'number', 'date', 'boolean', 'year')), None)
        if bad is not None:
            row = {f['name']: None for f in r['fields']}
            row[bad] = 'certainly not valid'
            rows.insert(len(rows) // 2, row)
        out.append(rows)
    return out


def xlsx_rows(store, wr):
    """(data rows, raw bytes) of an xlsx data file: the first sheet, minus its header line."""
    import io
    import openpyxl
    path = wr['path']
    if not store.exists(path):
        raise decode.DecodeError('file %r listed in the descriptor does not exist' % path)
    raw = store.read(path)
    try:
        wb = openpyxl.load_workbook(io.BytesIO(raw), read_only=True)
        lines = list(wb.worksheets[0].iter_rows(values_only=True))
        wb.close()
    except Exception as e:
        raise decode.DecodeError('xlsx file %r cannot be opened: %r' % (path, e))
    if not lines:
        raise decode.DecodeError('xlsx file %r has no header line' % path)
    return lines[1:], raw


def check(case, ctx):
    pkg, opts = case['pkg'], case['opts']
    classes = ['fmt:' + (opts['format'] if opts.get('force_format', True) else 'per-resource'), 'dumper:' + opts['dumper']] + (['re-dump'] if case.get('stale_counters') else []) + [
        'counters:' + ('default' if not opts.get('counters') else 'custom')]
    try:
        loc1, stats1 = dump_once(case, ctx, over_existing=bool(case.get('over_existing')))
        cwd = os.getcwd()
        try:
            if opts['dumper'] == 'path' and opts['add_filehash_to_path'] and os.path.isdir(loc1):
                # the second dump runs with the FIRST dump's directory as working directory: the same relative (hashed)
                # paths exist there, but the files have to be written under the second target all the same
                os.chdir(loc1)
                classes.append('working-directory-holds-the-same-relative-paths')
            loc2, stats2 = dump_once(case, ctx)
        finally:
            os.chdir(cwd)
        if case.get('over_existing'):
            classes.append('over-an-older-dump-of-equal-size')
    except Exception as e:
        raise unexpected(e, 'dump')
    names = {k: counter_name(opts, k) for k in DEFAULTS}
    hashes = []
    pending = []
    for loc, stats in ((loc1, stats1), (loc2, stats2)):
        store = decode.Store(loc)
        try:
            try:
                wd = decode.read_descriptor(store)
            except decode.DecodeError as e:
                raise Violation('descriptor-unreadable', {'error': str(e)})
            tot_bytes = tot_rows = 0
            res_hashes = []
            for r, wr in zip(pkg, wd['resources']):
                try:
                    if opts['format'] == 'excel':
                        rows, raw = xlsx_rows(store, wr)
                    else:
                        rows, raw = decode.decode_resource(store, wr)
                except decode.DecodeError as e:
                    sig = 'path:file-missing' if 'does not exist' in str(e) else 'file-undecodable'
                    raise Violation(sig, {'resource': r['name'], 'error': str(e)[:300], 'listing': store.listing()[:8]})
                if len(rows) != len(r['rows']):
                    raise Violation('file-row-count', {'resource': r['name'], 'file': len(rows), 'fed': len(r['rows'])})
                tot_bytes += len(raw)
                tot_rows += len(rows)
                for key, actual, label in (('resource-bytes', len(raw), 'bytes'), ('resource-hash', decode.md5(raw), 'hash'),
                                           ('resource-rowcount', len(rows), 'rowcount')):
                    nm = names[key]
                    if nm is None:
                        continue
                    got = getp(wr, nm)
                    if got is MISSING:
                        raise Violation('resource-%s:not-recorded' % label, {'resource': r['name'], 'counter': nm})
                    if got != actual:
                        raise Violation('resource-%s:wrong' % label, {'resource': r['name'], 'recorded': got, 'actual': actual})
                if names['resource-hash'] is not None:
                    res_hashes.append(getp(wr, names['resource-hash']))
                if opts['add_filehash_to_path'] and names['resource-hash'] is not None:
                    if decode.md5(raw) not in wr['path']:
                        raise Violation('filehash-not-in-path', {'path': wr['path']})
            for key, actual, label in (('datapackage-bytes', tot_bytes, 'bytes'), ('datapackage-rowcount', tot_rows, 'rowcount')):
                nm = names[key]
                if nm is None:
                    continue
                got = getp(wd, nm)
                if got is MISSING:
                    raise Violation('package-%s:not-recorded' % label, {'counter': nm})
                if got != actual:
                    raise Violation('package-%s:not-the-sum-over-resources' % label, {'recorded': got, 'sum': actual})
            # counters set to None must be absent (only checkable when the default name is not reused by another counter)
            for key in DEFAULTS:
                if names[key] is None and not case.get('stale_counters'):
                    scope = wd['resources'] if key.startswith('resource') else [wd]
                    used = {names[k] for k in DEFAULTS if k != key and k.split('-')[0] == key.split('-')[0]}
                    if DEFAULTS[key] not in used:
                        for obj in scope:
                            if DEFAULTS[key] in obj:
                                raise Violation('disabled-counter-still-recorded', {'counter': key})
            # process() stats agree with the written descriptor
            for key, skey in (('datapackage-bytes', 'bytes'), ('datapackage-rowcount', 'count_of_rows'), ('datapackage-hash', 'hash')):
                nm = names[key]
                written = getp(wd, nm) if nm is not None else None
                if written is MISSING:
                    if key == 'datapackage-hash':
                        raise Violation('package-hash:not-recorded', {'counter': nm})
                    written = None
                if stats.get(skey) != written:
                    djson = len(store.read('datapackage.json'))
                    if skey == 'bytes' and isinstance(written, int) and isinstance(stats.get(skey), int) and \
                            stats[skey] - written == djson:
                        # diagnosed, known: checked last so that the rest of the case is still explored
                        pending.append(Violation('stats-vs-descriptor:bytes-includes-datapackage-json',
                                                 {'stats': stats[skey], 'descriptor': written, 'datapackage_json': djson}))
                        continue
                    raise Violation('stats-vs-descriptor:%s' % skey, {'stats': stats.get(skey), 'descriptor': written})
            hashes.append((res_hashes, getp(wd, names['datapackage-hash']) if names['datapackage-hash'] else None))
        finally:
            store.close()
    if hashes[0][0] != hashes[1][0]:
        if opts['format'] == 'excel':
            pending.append(Violation('identical-dumps-differ:xlsx-files-embed-their-creation-time',
                                     {'first': hashes[0][0], 'second': hashes[1][0]}))
        else:
            raise Violation('resource-hash-differs-between-identical-dumps', {'first': hashes[0][0], 'second': hashes[1][0]})
    if hashes[0][1] != hashes[1][1] and opts['format'] != 'excel':       # (for xlsx: follows from the resource hashes, see above)
        raise Violation('package-hash-differs-between-identical-dumps', {'first': hashes[0][1], 'second': hashes[1][1]})
    nonascii = any(isinstance(v, str) and any(ord(ch) > 127 for ch in v) for r in pkg for row in r['rows'] for v in row.values())
    empty = any(not r['rows'] for r in pkg)
    nt = nonascii or empty or len(pkg) >= 2 or bool(opts.get('counters')) or opts['add_filehash_to_path'] or \
        opts['format'] != 'csv' or opts['dumper'] != 'path' or opts['pretty_descriptor'] is not None
    if nonascii:
        classes.append('non-ascii')
    if empty:
        classes.append('empty-resource')
    if case.get('drop_invalid'):
        classes.append('validator-drops-a-row')
    info = Info(nontrivial=nt, classes=classes, evals=2)
    if pending:
        pending[0].info = info
        raise pending[0]
    return info
