"""C04 - a failing step never yields a successful run (fault enumeration over generated pipelines).

For every generated pipeline, faults are enumerated over (position, phase) for an inserted failing user
step, plus faults delivered through the callables that built-in steps accept and through the sources;
the exception class is drawn.  Oracle: process() and results() raise ProcessorError whose cause chain
contains the injected exception object; they never return normally once the fault fired; and no dump
descriptor / zip directory / stream or checkpoint file positioned AFTER the failing step is committed."""
import os
import copy
import zipfile

import tableschema
import datapackage
from hypothesis import strategies as st

from vlib import gen, gen_programs as gp
from vlib.kernel import Violation, Info, dataflows, quiet, Flow, FeedStep, ProcessorError, root_cause

PID = 'C04'
LEVEL = 'fault_enumeration'
LEVEL_TEXT = ('fault enumeration: for each generated pipeline every (position, phase) pair of an inserted failing step is '
              'enumerated, plus faults through built-in steps\' callables and through the sources; exception classes and '
              'pipelines are sampled')
TECHNIQUE = 'property-based generation of pipelines + enumeration of fault positions/phases with injected exceptions'
RULE = ('cases = pipelines of 2-6 steps over the whole catalogue (always with >=1 file dumper / stream / checkpoint) x ALL '
        'positions p x phases {package definition, first / second / last row of a resource, resource exhaustion, end of all '
        'resources} of an inserted failing step, x faults through callables of built-in steps (filter_rows condition, '
        'add_computed_field operation, set_type transform, validate validator, sort_rows key, finalizer callback, conditional '
        'predicate) x a step failing upstream of parallelize (N 1-3 workers, drawn schedule, scheduler shim) x source faults (iterable raising inside / beyond the 100-row sample, row of the wrong type beyond the '
        'sample) x exception class drawn from {ValueError, KeyError, custom, AssertionError, tableschema CastError, '
        'datapackage CastError, tableschema UniqueKeyError, dataflows / tableschema / datapackage ValidationError, tableschema SourceError, OSError, UnicodeDecodeError, tabulator SourceError / EncodingError, RuntimeError}, each observed through process() and '
        'results(); non-trivial: the fault fired and >=1 artefact-writing step sits after it; distinct by (case, fault)')
ASSUMPTIONS = [
    'parallelize takes part through a dedicated fault (a step failing upstream of it), executed under the C18 scheduler shim',
    'a fault that never fires (e.g. "last row" of an empty resource) is not counted',
]
BUDGET = {'quick': dict(examples=48, shards=16, seconds=80, chunk=3),
          'thorough': dict(examples=3200, shards=16, seconds=1200, chunk=20)}

KINDS = [k for k in gp.ALL_KINDS if k not in ('package_fn',)] + ['dump_to_path', 'dump_to_zip', 'stream_file', 'checkpoint'] * 2
EXC = ['ValueError', 'KeyError', 'Custom', 'AssertionError', 'ts.CastError', 'dp.CastError', 'ts.UniqueKeyError', 'df.ValidationError',
       'ts.ValidationError', 'dp.ValidationError', 'ts.SourceError', 'OSError', 'StopIteration',
       # classes the table reader treats specially (UnicodeError -> its EncodingError, others -> its SourceError)
       'UnicodeDecodeError', 'tab.SourceError', 'tab.EncodingError', 'RuntimeError',
       # the library's own exception family, raised by user code (a subclass of its base class; its SourceLoadError)
       'df.DataflowsException-subclass', 'df.SourceLoadError']
ARTEFACT_KINDS = ('dump_to_path', 'dump_to_zip', 'stream_file', 'checkpoint')


class Custom(Exception):
    pass


class UserPipelineError(dataflows.exceptions.DataflowsException):
    """A user's exception class derived from the library's base exception."""


def make_exc(name):
    if name == 'ValueError':
        return ValueError('injected')
    if name == 'KeyError':
        return KeyError('injected')
    if name == 'Custom':
        return Custom('injected')
    if name == 'AssertionError':
        return AssertionError('injected')
    if name == 'ts.CastError':
        return tableschema.exceptions.CastError('injected', errors=[tableschema.exceptions.CastError('inner')])
    if name == 'dp.CastError':
        return datapackage.exceptions.CastError('injected', errors=[datapackage.exceptions.CastError('inner')])
    if name == 'ts.UniqueKeyError':
        return tableschema.exceptions.UniqueKeyError('injected')
    if name == 'ts.ValidationError':
        return tableschema.exceptions.ValidationError('injected', errors=[tableschema.exceptions.ValidationError('inner')])
    if name == 'dp.ValidationError':
        return datapackage.exceptions.ValidationError('injected', errors=[datapackage.exceptions.ValidationError('inner')])
    if name == 'ts.SourceError':
        return tableschema.exceptions.SourceError('injected')
    if name == 'OSError':
        return OSError(28, 'injected')
    if name == 'StopIteration':
        return StopIteration('injected')
    if name == 'UnicodeDecodeError':
        return UnicodeDecodeError('utf-8', b'\xff', 0, 1, 'injected')
    if name == 'tab.SourceError':
        import tabulator
        return tabulator.exceptions.SourceError('injected')
    if name == 'tab.EncodingError':
        import tabulator
        return tabulator.exceptions.EncodingError('injected')
    if name == 'RuntimeError':
        return RuntimeError('injected')
    if name == 'df.DataflowsException-subclass':
        return UserPipelineError('injected')
    if name == 'df.SourceLoadError':
        return dataflows.exceptions.SourceLoadError('injected')
    return dataflows.ValidationError('res', {'a': 1}, 0, None)


@st.composite
def cases_(draw):
    pkg = draw(gp.input_package(1, 3, sizes=(0, 1, 2, 3, 5)))
    prog = draw(gp.programs(2, 6, kinds=KINDS, pkg=pkg, favour_mutators=False))
    steps = prog['steps']
    if not any(s['k'] in ARTEFACT_KINDS for s in steps):
        steps.append({'k': draw(st.sampled_from(['dump_to_path', 'dump_to_zip', 'stream_file', 'checkpoint']))})
    n = len(steps)
    extra = []
    for _ in range(draw(st.integers(2, 5))):
        kind = draw(st.sampled_from(['filter_rows', 'add_computed', 'set_type', 'validate', 'sort_rows', 'finalizer',
                                     'conditional', 'source-raise', 'source-badtype', 'row_fn', 'row_fn']))
        extra.append({'via': kind, 'at': draw(st.integers(0, n)), 'row': draw(st.sampled_from([0, 1, 50, 99, 100, 101, 150])),
                      'exc': draw(st.sampled_from(EXC))})
    par = [{'row': draw(st.sampled_from([0, 1, 2, 4])), 'exc': draw(st.sampled_from(EXC)), 'N': draw(st.integers(1, 3)),
            'schedule': draw(st.lists(st.integers(0, 5), max_size=60)),
            # an artefact-writing step between the failing step and parallelize, and a second resource behind the failing one
            'mid': draw(st.sampled_from([None, 'dump_to_path', 'checkpoint'])), 'two': draw(st.booleans())}
           for _ in range(draw(st.integers(1, 2)))]
    return {'pkg': prog['pkg'], 'steps': steps, 'exc_seed': draw(st.lists(st.sampled_from(EXC), min_size=12, max_size=12)),
            'res_pick': draw(st.integers(0, 5)), 'extra': extra, 'par': par}


def cases(tier):
    return cases_()


class Fired:
    def __init__(self):
        self.exc = None


def failing_step(phase, row, res_pick, exc_name, fired):
    """A package-level user step that raises `exc_name` at the requested phase."""
    def step(package):
        if phase == 'package':
            fired.exc = make_exc(exc_name)
            raise fired.exc
        yield package.pkg
        n_res = len(package.pkg.resources)
        for i, res in enumerate(package):
            if n_res and i == res_pick % n_res and phase in ('row', 'exhaustion'):
                def rows(res=res):
                    prev = None
                    have = False
                    idx = 0
                    for r in res:
                        if have:
                            if (row == 'first' and idx == 1) or (row == 'second' and idx == 2):
                                fired.exc = make_exc(exc_name)
                                raise fired.exc
                            yield prev
                        prev, have = r, True
                        idx += 1
                    if have:
                        if phase == 'row' and (row == 'last' or (row == 'first' and idx == 1) or (row == 'second' and idx == 2)):
                            fired.exc = make_exc(exc_name)
                            raise fired.exc
                        yield prev
                    if phase == 'exhaustion':
                        fired.exc = make_exc(exc_name)
                        raise fired.exc
                yield rows()
            else:
                yield res
        if phase == 'end':
            fired.exc = make_exc(exc_name)
            raise fired.exc
    return step


def callable_fault(via, row, exc_name, fired):
    """A built-in step whose user-supplied callable raises at the row-th call (0-based)."""
    n = {'i': 0}

    def boom(*a, **kw):
        n['i'] += 1
        if n['i'] - 1 >= row:
            fired.exc = make_exc(exc_name)
            raise fired.exc
        return True
    d = dataflows
    if via == 'row_fn':
        def row_step(row):
            boom()
        return row_step
    if via == 'filter_rows':
        return d.filter_rows(condition=lambda row_: boom())
    if via == 'add_computed':
        return d.add_computed_field(target=dict(name='boom_f', type='any'), operation=lambda row_: boom())
    if via == 'set_type':
        def tr(v):
            boom()
            return v
        return d.set_type('id', resources=None, transform=tr, type='integer')
    if via == 'validate':
        def validator(row_):
            return boom()
        return d.validate(validator)
    if via == 'sort_rows':
        return d.sort_rows(lambda row_: str(boom()))
    if via == 'finalizer':
        def cb():
            fired.exc = make_exc(exc_name)
            raise fired.exc
        return d.finalizer(cb)
    if via == 'conditional':
        def pred(dp):
            fired.exc = make_exc(exc_name)
            raise fired.exc
        return d.conditional(pred, Flow())
    raise AssertionError(via)


def cause_chain(e):
    seen = []
    cur = e
    while cur is not None and len(seen) < 12:
        seen.append(cur)
        nxt = getattr(cur, 'cause', None)
        if nxt is None:
            nxt = cur.__cause__ or cur.__context__
        cur = nxt
    return seen


def artefacts_after(env, specs_with_fault, fault_index):
    """Committed artefacts of steps positioned after the failing step."""
    out = []
    counters = {}
    for i, s in enumerate(specs_with_fault):
        k = s['k'] if isinstance(s, dict) else None
        if k in ARTEFACT_KINDS:
            nth = counters.get(k, 0)
            counters[k] = nth + 1
            if i > fault_index and nth < len(env.captures.get(k, [])):
                path = env.captures[k][nth]
                if k == 'dump_to_path' and os.path.exists(os.path.join(path, 'datapackage.json')):
                    out.append((k, i))
                elif k == 'dump_to_zip':
                    try:
                        ok = os.path.exists(path) and zipfile.is_zipfile(path) and 'datapackage.json' in zipfile.ZipFile(path).namelist()
                    except Exception:
                        ok = False
                    if ok:
                        out.append((k, i))
                elif k in ('stream_file', 'checkpoint') and os.path.exists(path):
                    out.append((k, i))
    return out


def run_with_fault(case, ctx, mode, build_fault, at, label, compose=None):
    pkg, specs = case['pkg'], case['steps']
    desc0 = gen.descriptor_of(pkg)
    tables0 = gen.tables_of(pkg)
    fired = Fired()
    env = gp.Env(ctx, 'f')
    steps = [gp.build(s, env) for s in specs]
    marker = object()
    steps.insert(at, build_fault(fired))
    order = list(specs)
    order.insert(at, marker)
    err = None
    try:
        with quiet():
            if compose is None:
                flow = Flow(FeedStep(desc0, tables0), *steps)
            else:
                # the steps up to and including the failing one form an inner flow that the outer flow consumes through
                # one of the documented composition forms: its failure is the outer run's failure
                inner = Flow(FeedStep(desc0, tables0), *steps[:at + 1])
                if compose == 'load_tuple':
                    ds = inner.datastream()
                    kw_ = {'limit_rows': 10 ** 6} if at % 2 else {}            # (an option that changes nothing here)
                    head = dataflows.load((ds.dp.descriptor, ds.res_iter), strip=False,
                                          cast_strategy=dataflows.load.CAST_DO_NOTHING, **kw_)
                elif compose == 'sources':
                    head = dataflows.sources(inner)
                else:
                    head = inner
                flow = Flow(head, *steps[at + 1:])
            if mode == 'process':
                flow.process()
            else:
                flow.results()
    except Exception as e:
        err = e
    if fired.exc is None:
        if compose is not None and err is None and label.get('phase') == 'end':
            # the step fails when it is asked for the resource after its last one: a run that completes without ever
            # asking has skipped the end of the inner flow (where dumps are finalised, finalizers run - and failures surface)
            raise Violation('inner-flow-never-driven-to-its-end:%s' % compose, dict(label, mode=mode))
        return False, 0
    if err is None:
        raise Violation('run-returned-normally-after-a-step-raised', dict(label, mode=mode))
    if not isinstance(err, ProcessorError):
        raise Violation('not-a-ProcessorError:%s' % type(err).__name__, dict(label, mode=mode, error=str(err)[:200]))
    if not any(x is fired.exc for x in cause_chain(err)):
        raise Violation('cause-is-not-the-original-exception', dict(label, mode=mode, got=[type(x).__name__ for x in cause_chain(err)]))
    if err.cause is not fired.exc and not isinstance(err.cause, ProcessorError) and not isinstance(fired.exc, StopIteration):
        # (a StopIteration raised inside a generator is turned into RuntimeError by Python itself, PEP 479)
        # the statement says "whose cause is the original exception": the direct .cause must be it
        raise Violation('direct-cause-is-not-the-original-exception', dict(label, mode=mode, cause=type(err.cause).__name__))
    committed = artefacts_after(env, order, at)
    if committed:
        raise Violation('artefact-committed-after-failure:%s' % committed[0][0], dict(label, mode=mode, committed=committed))
    n_after = sum(1 for i, s in enumerate(order) if i > at and isinstance(s, dict) and s['k'] in ARTEFACT_KINDS)
    return True, n_after


DATA_FAULTS = ['join-target-row-without-key', 'join-source-row-without-key', 'sort_rows-row-without-key',
               'computed-format-row-without-field']


def run_data_fault(ctx, kind, mode, join_mode, at_row):
    """A built-in step that cannot do its work on one particular row (the row lacks the field the step needs): the step
    raises, so the run must fail - it must not quietly treat the row as 'no match' / skip it - and the dump behind it must
    not be committed."""
    src = [{'k': i % 3, 'v': 10 + i} for i in range(4)]
    tgt = [{'k': i % 3, 'w': 'w%d' % i} for i in range(4)]
    desc = gen.descriptor_of([{'name': 'src', 'fields': [{'name': 'k', 'type': 'integer'}, {'name': 'v', 'type': 'integer'}], 'rows': src},
                              {'name': 'tgt', 'fields': [{'name': 'k', 'type': 'integer'}, {'name': 'w', 'type': 'string'}], 'rows': tgt}])
    victim = 'src' if kind == 'join-source-row-without-key' else 'tgt'
    hit = {'n': 0}

    def drop_key(package):
        yield package.pkg
        for res in package:
            if res.res.name != victim:
                yield res
            else:
                def it(res=res):
                    for i, row in enumerate(res):
                        if i == at_row:
                            row = dict(row)
                            del row['k']
                            hit['n'] += 1
                        yield row
                yield it()
    d = dataflows
    if kind.startswith('join'):
        step = d.join('src', ['k'], 'tgt', ['k'], fields={'v': {'aggregate': 'sum'}}, mode=join_mode)
    elif kind.startswith('sort_rows'):
        step = d.sort_rows('{k}', resources='tgt')
    else:
        step = d.add_computed_field(target='lbl', operation='format', with_='{k}-{w}', resources='tgt')
    out_dir = os.path.join(ctx.tmpdir(), 'dump')
    err = None
    try:
        with quiet():
            flow = Flow(FeedStep(desc, [src, tgt]), drop_key, step, d.dump_to_path(out_dir))
            flow.process() if mode == 'process' else flow.results()
    except Exception as e:
        err = e
    label = {'fault': kind, 'mode': mode, 'join_mode': join_mode, 'row': at_row}
    if not hit['n']:
        return False
    if err is None:
        raise Violation('run-returned-normally-although-a-step-could-not-process-a-row:%s' % kind, label)
    if not isinstance(err, ProcessorError):
        raise Violation('not-a-ProcessorError:%s' % type(err).__name__, dict(label, error=str(err)[:200]))
    if os.path.exists(os.path.join(out_dir, 'datapackage.json')):
        raise Violation('artefact-committed-after-failure:dump_to_path', label)
    return True


def check(case, ctx):
    specs = case['steps']
    n = len(specs)
    prog = [s['k'] for s in specs]
    subkeys = []
    fired_n = runs = 0
    excs = list(case['exc_seed']) + ['df.DataflowsException-subclass', 'df.SourceLoadError']
    ei = 0
    # ---- (i) inserted failing step: all positions x phases
    for at in range(0, n + 1):
        for phase, row in (('package', None), ('row', 'first'), ('row', 'second'), ('row', 'last'), ('exhaustion', None), ('end', None)):
            exc_name = excs[ei % len(excs)]
            ei += 1
            for mode in ('process', 'results'):
                label = {'fault': 'inserted-step', 'at': at, 'phase': phase, 'row': row, 'exc': exc_name, 'program': prog}
                fired, n_after = run_with_fault(case, ctx, mode, lambda f: failing_step(phase, row, case['res_pick'], exc_name, f), at, label)
                runs += 1
                if fired:
                    fired_n += 1
                    if n_after:
                        subkeys.append('i%d%s%s%s' % (at, phase, row, mode))
    # ---- (i') the same, with the failing step inside an inner flow consumed by the outer one (load((descriptor,
    # resource iterator)), sources(Flow), a nested Flow): row / exhaustion / end-of-stream phases, cycling through the forms
    for at in range(0, n + 1):
        for pi, (phase, row) in enumerate((('row', 'last'), ('exhaustion', None), ('end', None))):
            compose = ('load_tuple', 'sources', 'nested')[(at + pi) % 3]
            exc_name = excs[ei % len(excs)]
            ei += 1
            mode = ('process', 'results')[(at + pi) % 2]
            label = {'fault': 'inserted-step-in-inner-flow', 'composition': compose, 'at': at, 'phase': phase, 'row': row,
                     'exc': exc_name, 'program': prog}
            fired, n_after = run_with_fault(case, ctx, mode, lambda f: failing_step(phase, row, case['res_pick'], exc_name, f), at,
                                            label, compose=compose)
            runs += 1
            if fired:
                fired_n += 1
                if n_after:
                    subkeys.append('c%s%d%s%s' % (compose, at, phase, mode))
    # ---- (ii) faults through callables of built-in steps, (iii) source faults
    # source faults are enumerated for every case: exception classes the table reader treats specially x a row inside
    # the 100-row inference sample, the first row after it, and a later one (one observation mode each)
    src_enum = []
    for ci, exc_name in enumerate(['ValueError', 'UnicodeDecodeError', 'tab.SourceError', 'OSError', 'ts.CastError']):
        for ri, row in enumerate((1, 100, 150)):
            src_enum.append({'via': 'source-raise', 'at': case['res_pick'] % (n + 1), 'row': row, 'exc': exc_name,
                             'modes': (('process', 'results')[(ci + ri) % 2],)})
    # a StopIteration escaping from a user callable (the classic next() on an exhausted lookup) must fail the run, not
    # end the resource early: enumerated for every callable-taking step kind
    for vi, via in enumerate(['row_fn', 'filter_rows', 'add_computed', 'set_type', 'validate', 'sort_rows']):
        src_enum.append({'via': via, 'at': (case['res_pick'] + vi) % (n + 1), 'row': 1, 'exc': 'StopIteration',
                         'modes': (('process', 'results')[vi % 2],)})
    for x in list(case['extra']) + src_enum:
        for mode in x.get('modes', ('process', 'results')):
            label = {'fault': x['via'], 'at': x['at'], 'row': x['row'], 'exc': x['exc'], 'program': prog}
            if x['via'] in ('source-raise', 'source-badtype'):
                def build(f, x=x):
                    def src():
                        for i in range(160):
                            if i == x['row']:
                                if x['via'] == 'source-raise':
                                    f.exc = make_exc(x['exc'])
                                    raise f.exc
                                f.exc = 'badtype'
                                yield {'sid': 'not-a-number', 'sv': 'x'}
                            else:
                                yield {'sid': i, 'sv': 'v%d' % i}
                    return src()
                if x['via'] == 'source-badtype':
                    fired, n_after = run_badtype(case, ctx, mode, build, x, label)
                else:
                    fired, n_after = run_with_fault(case, ctx, mode, build, x['at'], label)
            else:
                fired, n_after = run_with_fault(case, ctx, mode,
                                                lambda f, x=x: callable_fault(x['via'], min(x['row'], 3), x['exc'], f), x['at'], label)
            runs += 1
            if fired:
                fired_n += 1
                if n_after:
                    subkeys.append('x%s%d%d%s' % (x['via'], x['at'], x['row'], mode))
    # ---- (iv) a step failing upstream of parallelize (run under the harness-owned scheduler of C18)
    for px in case.get('par', []):
        for mode in ('process', 'results'):
            label = {'fault': 'upstream-of-parallelize', 'row': px['row'], 'exc': px['exc'], 'N': px['N'], 'program': prog}
            fired, n_after = run_parallelize_fault(case, ctx, mode, px, label)
            runs += 1
            if fired:
                fired_n += 1
                subkeys.append('p%d%s%d%s' % (px['row'], px['exc'], px['N'], mode))
    # ---- (v) built-in steps that cannot process one particular row
    for ki, kind in enumerate(DATA_FAULTS):
        jm = ('inner', 'half-outer', 'full-outer')[(case['res_pick'] + ki) % 3]
        if run_data_fault(ctx, kind, ('process', 'results')[ki % 2], jm, (case['res_pick'] + ki) % 4):
            runs += 1
            fired_n += 1
            subkeys.append('d%s%s%d' % (kind, jm, (case['res_pick'] + ki) % 4))
    classes = ['len=%d' % n] + sorted({'k:' + k for k in prog if k in ARTEFACT_KINDS})
    return Info(nontrivial=len(subkeys) >= 1, classes=classes, evals=runs, subkeys=subkeys,
                extra={'fault_runs': runs, 'fault_runs_where_the_fault_fired': fired_n,
                       'fault_runs_fired_with_an_artefact_step_after': len(subkeys)})


def run_badtype(case, ctx, mode, build, x, label):
    """A source row of the wrong type beyond the inference sample: the library itself raises its cast /
    validation error (in a dumper's validator, or in results()' final validation)."""
    pkg, specs = case['pkg'], case['steps']
    desc0 = gen.descriptor_of(pkg)
    tables0 = gen.tables_of(pkg)
    if x['row'] < 100:
        return False, 0          # inside the sample the column is simply inferred as 'any'
    fired = Fired()
    env = gp.Env(ctx, 'f')
    at = x['at']
    steps = [gp.build(s, env) for s in specs]
    steps.insert(at, build(fired))
    order = list(specs)
    order.insert(at, object())
    has_validator_after = any(isinstance(s, dict) and s['k'] in ('dump_to_path', 'dump_to_zip', 'validate') for s in order[at + 1:])
    err = None
    try:
        with quiet():
            flow = Flow(FeedStep(desc0, tables0), *steps)
            if mode == 'process':
                flow.process()
            else:
                flow.results()
    except Exception as e:
        err = e
    if fired.exc is None:
        return False, 0
    # the iterable source is read through the schema library with casting on: the library itself raises
    # its cast error for the offending row, in every observation mode
    if err is None:
        raise Violation('run-returned-normally-with-an-invalid-row', dict(label, mode=mode))
    if not isinstance(err, ProcessorError):
        raise Violation('not-a-ProcessorError:%s' % type(err).__name__, dict(label, mode=mode))
    # artefacts after the first validating step that follows the source must not be committed
    first_val = next((i for i, s in enumerate(order) if i > at and isinstance(s, dict) and s['k'] in ('dump_to_path', 'dump_to_zip', 'validate')), None)
    if first_val is not None:
        committed = artefacts_after(env, order, first_val - 1)
        if committed:
            raise Violation('artefact-committed-after-failure:%s' % committed[0][0], dict(label, mode=mode, committed=committed))
    return True, 1 if first_val is not None else 0


def _par_row(row):
    row['id'] = row['id']


def run_parallelize_fault(case, ctx, mode, px, label):
    """FeedStep -> step raising at row k -> parallelize(N workers) -> dump_to_path, executed under the cooperative
    scheduler (vlib/sched.py) with a drawn schedule: the error must surface as ProcessorError(cause=original), every
    task must end (no deadlock), and the dump after parallelize must not be committed."""
    from vlib import sched as vsched
    data = [{'id': i} for i in range(6)]
    desc = gen.descriptor_of([{'name': 'res_1', 'fields': [{'name': 'id', 'type': 'integer'}], 'rows': data}])
    fired = Fired()
    out_dir = os.path.join(ctx.tmpdir(), 'dump')

    def failing(rows):
        for i, r in enumerate(rows):
            if i == px['row']:
                fired.exc = make_exc(px['exc'])
                raise fired.exc
            yield r
    s = vsched.Scheduler(px['schedule'])
    res = {}
    tables = [data]
    if px.get('two'):
        desc = gen.descriptor_of([{'name': 'res_1', 'fields': [{'name': 'id', 'type': 'integer'}], 'rows': data},
                                  {'name': 'res_2', 'fields': [{'name': 'id', 'type': 'integer'}], 'rows': data[:3]}])
        tables = [data, data[:3]]
    mid_dir = os.path.join(ctx.tmpdir(), 'mid')
    mid, mid_file = [], None
    if px.get('mid') == 'dump_to_path':
        mid, mid_file = [dataflows.dump_to_path(mid_dir)], os.path.join(mid_dir, 'datapackage.json')
    elif px.get('mid') == 'checkpoint':
        mid, mid_file = [dataflows.checkpoint('cp', checkpoint_path=mid_dir)], os.path.join(mid_dir, 'cp', 'stream.ndjson')

    def failing_first(package):
        yield package.pkg
        for i, rows in enumerate(package):
            yield failing(rows) if i == 0 else rows

    def consumer():
        try:
            flow = Flow(FeedStep(desc, tables), failing_first, *mid,
                        dataflows.parallelize(_par_row, num_processors=px['N']),
                        dataflows.dump_to_path(out_dir))
            if mode == 'process':
                flow.process()
            else:
                flow.results()
        except Exception as e:
            res['err'] = e
    try:
        with vsched.patched(s), quiet():
            s.run(consumer)
    except vsched.Deadlock as e:
        raise Violation('parallelize:upstream-error-deadlocks', dict(label, mode=mode, error=str(e)[:200]))
    except vsched.StepLimit as e:
        raise Violation('parallelize:upstream-error-never-terminates', dict(label, mode=mode))
    if fired.exc is None:
        return False, 0
    err = res.get('err')
    if err is None:
        raise Violation('run-returned-normally-after-a-step-raised', dict(label, mode=mode))
    if not isinstance(err, ProcessorError):
        raise Violation('not-a-ProcessorError:%s' % type(err).__name__, dict(label, mode=mode, error=str(err)[:200]))
    if not any(x is fired.exc for x in cause_chain(err)):
        raise Violation('cause-is-not-the-original-exception', dict(label, mode=mode, got=[type(x).__name__ for x in cause_chain(err)]))
    unfinished = [t.name for t in s.tasks if not t.done and t.feeder is None]
    if unfinished:
        raise Violation('parallelize:tasks-left-running-after-upstream-error', dict(label, mode=mode, tasks=unfinished))
    if os.path.exists(os.path.join(out_dir, 'datapackage.json')):
        raise Violation('artefact-committed-after-failure:dump_to_path', dict(label, mode=mode))
    if mid_file is not None and os.path.exists(mid_file):
        raise Violation('artefact-committed-after-failure:%s-between-the-failing-step-and-parallelize' % px['mid'],
                        dict(label, mode=mode, two_resources=bool(px.get('two'))))
    return True, 1
