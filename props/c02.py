"""C02 - emitted rows always agree with the emitted descriptor.

Oracle: a validity predicate over the raw datastream() output of generated pipelines of built-in steps:
one stream per resource descriptor (same order, unique names); every row's keys are declared fields;
every value is null or accepted by Table Schema's cast for the declared field; the descriptor is a valid
Data Package; and results() does not fail validation."""
import copy
import datetime
import decimal

import tableschema
import datapackage
from hypothesis import strategies as st

from vlib import gen, gen_programs as gp
from vlib.kernel import (Violation, Info, unexpected, dataflows, quiet, Flow, feed, materialise, root_cause,
                         FeedStep, passthrough_desc)

PID = 'C02'
LEVEL = 'exploration'
RULE = ('cases = pipelines of 1-6 built-in steps (field / row / resource / package level; join with every aggregator and mode, '
        'concatenate, unpivot, duplicate, set_type, add_computed_field incl. avg/max/multiply, load of generated CSV, sources, '
        'dumpers) over 1-3 conforming typed resources (string, integer, number, boolean, date, datetime, time, year, array, '
        'object; nulls); non-trivial: the program contains >=1 step that adds, retypes or merges fields or resources and >=1 '
        'resource has >=1 row; distinct by canonical case hash')
ASSUMPTIONS = [
    'validity of a value = tableschema.Field(descriptor, missing_values).cast_value accepts it (the schema library\'s notion)',
    'a run that fails with a documented, input-dependent error of a step (e.g. concatenate "empty row") is a rejection, '
    'not a violation; the residual rejection rate is reported',
]
BUDGET = {'quick': dict(examples=2400, shards=16, seconds=80),
          'thorough': dict(examples=100000, shards=16, seconds=1200)}

TYPES = ['string', 'integer', 'number', 'boolean', 'date', 'datetime', 'time', 'year', 'array', 'object']
# the permutation walk visits every entry once per cycle: repeated entries weight the type-producing steps
KINDS = [k for k in gp.ALL_KINDS if k not in gp.USER_KINDS] + ['join'] * 8 + ['concatenate'] * 3 + ['unpivot'] * 2 + \
    ['add_computed'] * 2 + ['set_type'] * 2 + ['iterable', 'load_csv', 'duplicate', 'checkpoint', 'load_csv']
SHAPING = {'add_field', 'add_computed', 'set_type', 'unpivot', 'concatenate', 'duplicate', 'join', 'rename_fields',
           'select_fields', 'delete_fields', 'delete_resource', 'iterable', 'sources', 'load_csv', 'set_pk_dedupe'}


@st.composite
def cases_(draw):
    if gen.rare(draw, 200):
        # focused class 'resource-name arithmetic': auto-named inputs (res_1..res_3), deletions that leave gaps, then
        # steps that append or create resources and have to find free names
        pkg = draw(gp.input_package(3, 3, types=TYPES))
        prog = draw(gp.programs(2, 5, kinds=['delete_resource', 'sources', 'iterable', 'delete_resource', 'duplicate',
                                             'concatenate', 'sources', 'iterable'], pkg=pkg, favour_mutators=False))
    elif gen.rare(draw, 180):
        # focused class 'numeric typing': integer and number columns side by side, steps that derive a type from them
        pkg = draw(gp.input_package(2, 3, types=['integer', 'number', 'number']))
        if draw(st.booleans()):
            # the same column names in every resource, integer in one and number in another
            for ri, r in enumerate(pkg):
                flds = r['fields'][:2] + [{'name': 'n1', 'type': 'integer' if ri == 0 else 'number'},
                                          {'name': 'n2', 'type': draw(st.sampled_from(['integer', 'number']))}]
                rows = []
                for row in r['rows']:
                    new = {'id': row['id'], 'g': row['g']}
                    for f in flds[2:]:
                        new[f['name']] = draw(st.integers(-9, 9)) if f['type'] == 'integer' else \
                            decimal.Decimal(draw(st.integers(-99, 99))) / 4
                    rows.append(new)
                r['fields'], r['rows'] = flds, rows
        prog = draw(gp.programs(1, 4, kinds=['add_computed', 'join', 'add_computed', 'unpivot', 'add_computed', 'concatenate', 'join'],
                                pkg=pkg, favour_mutators=False))
    elif gen.rare(draw, 170):
        # focused class 'retyping': several text columns per resource, retyped (several at once, non-numbers cleared)
        pkg = draw(gp.input_package(1, 2, types=['string', 'string', 'integer'], sizes=(2, 3, 5)))
        prog = draw(gp.programs(1, 3, kinds=['set_type', 'set_type', 'validate', 'find_replace'], pkg=pkg,
                                favour_mutators=False))
    else:
        pkg = draw(gp.input_package(2, 3, types=TYPES))
        prog = draw(gp.programs(1, 6, kinds=KINDS, pkg=pkg, favour_mutators=False))
    # temporal values with a sub-second part (they survive every step, a checkpoint round trip included)
    for r in prog['pkg']:
        for row in r['rows']:
            for k, v in list(row.items()):
                if isinstance(v, (datetime.datetime, datetime.time)) and draw(st.booleans()):
                    row[k] = v.replace(microsecond=draw(st.sampled_from([1, 500000, 999999])))
    return {'pkg': prog['pkg'], 'steps': prog['steps']}


def cases(tier):
    return cases_()


def check(case, ctx):
    pkg, specs = case['pkg'], case['steps']
    desc0 = gen.descriptor_of(pkg)
    tables0 = gen.tables_of(pkg)
    prog = [s['k'] for s in specs]
    classes = sorted({'k:' + k for k in prog})
    for s in specs:
        if s['k'] == 'join':
            classes.append('join:' + list(s['fields'].values())[0]['aggregate'])
            classes.append('join:' + s['mode'])
        if s['k'] == 'add_computed':
            classes.append('computed:' + s['operation'])
    def one_run(env, attempt):
        try:
            with quiet():
                ds = Flow(*[gp.build(s, env) for s in specs]).datastream(feed(desc0, tables0))
                desc, rows, _ = materialise(ds)
        except Exception as e:
            why = gp.data_dependent_rejection(e)
            if why:
                return Info(rejected=True, classes=classes + ['rejected:' + why])
            raise unexpected(e, '/'.join(prog))
        names = [r['name'] for r in desc['resources']]
        if len(rows) != len(names):
            raise Violation('streams-vs-descriptors', {'streams': len(rows), 'resources': names, 'program': prog})
        if len(set(names)) != len(names):
            raise Violation('duplicate-resource-names', {'resources': names, 'program': prog})
        for rd, table in zip(desc['resources'], rows):
            schema = tableschema.Schema(rd['schema'])
            fields = {f.name: f for f in schema.fields}
            if len(fields) != len(schema.fields):
                # rows are keyed by field name: two declared fields of one name cannot both be carried by a row
                raise Violation('schema-declares-a-field-name-twice', {'resource': rd['name'],
                                                                        'fields': [f.name for f in schema.fields], 'program': prog})
            for i, row in enumerate(table):
                extra = [k for k in row if k not in fields]
                if extra:
                    raise Violation('row-has-undeclared-field', {'resource': rd['name'], 'fields': extra, 'program': prog})
                for k, v in row.items():
                    if v is None:
                        continue
                    try:
                        fields[k].cast_value(v)
                    except tableschema.exceptions.CastError:
                        last = next((s for s in reversed(specs) if s['k'] in SHAPING), {'k': '?'})
                        sig = 'value-invalid-for-declared-type:%s' % fields[k].type
                        if k.startswith('jf'):
                            j = next(s for s in specs if s['k'] == 'join' and k in s['fields'])
                            sig += ':join-' + j['fields'][k]['aggregate']
                        elif k.startswith('cf'):
                            c = next(s for s in specs if s['k'] == 'add_computed' and s['target'] == k)
                            sig += ':computed-' + c['operation']
                        raise Violation(sig, {'resource': rd['name'], 'field': k, 'type': fields[k].type,
                                              'value': v, 'python_type': type(v).__name__, 'program': prog})
        try:
            valid = datapackage.Package(copy.deepcopy(desc)).valid
        except Exception as e:
            valid = False
        if not valid:
            errs = [str(e)[:200] for e in datapackage.Package(copy.deepcopy(desc)).errors][:3]
            raise Violation('descriptor-not-a-valid-data-package', {'errors': errs, 'program': prog})
        return None
    env = gp.Env(ctx, 'a')
    r = one_run(env, 1)
    if r is not None:
        return r
    if any(s_['k'] == 'checkpoint' for s_ in specs):
        # the same pipeline run again picks its checkpoint up: what it emits then is held to the same standard
        env.n = 0
        env.captures = {}
        classes.append('second-run-resumes-from-a-checkpoint')
        r = one_run(env, 2)
        if r is not None:
            return r
    # consequently results() (which validates every row against the final schema) must not fail
    env = gp.Env(ctx, 'r')
    try:
        with quiet():
            Flow(FeedStep(desc0, tables0), *[gp.build(s, env) for s in specs]).results()
    except Exception as e:
        rc = root_cause(e)
        raise Violation('results()-fails:%s' % type(rc).__name__, {'error': str(rc)[:300], 'program': prog})
    nontrivial = any(k in SHAPING for k in prog) and any(len(t) for t in tables0)
    return Info(nontrivial=nontrivial, classes=classes, evals=2)
