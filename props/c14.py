"""C14 - set_type and validate cast valid values and apply the error policy exactly.

Oracle: Table Schema's own cast (tableschema.Field.cast_value - the cast the statement names)
applied cell by cell by the harness, then a policy model written from PROCESSORS.md."""
import re
import copy
import datetime
import decimal

from hypothesis import strategies as st
import tableschema

from vlib import gen
from vlib.compare import schema_sig
from vlib.kernel import (Violation, Info, unexpected, dataflows, root_cause, run_results, ProcessorError)

PID = 'C14'
LEVEL = 'exploration'
RULE = ('cases = tables of 1-25 rows x 1-4 fields of lexical/native values valid or invalid for a drawn target '
        '(integer, number+decimalChar, boolean, date+format, year, string/integer with constraints) x processor '
        '(set_type | validate() | validate(row fn) | validate(field, fn)) x policy (raise, drop, ignore, clear, custom '
        '4-/5-argument handlers with drawn decisions) x field-name regex / literal x resources selector x transform; '
        'non-trivial: >=1 invalid cell not in the last row, or >=2 invalid fields in one row; distinct by case hash')
ASSUMPTIONS = [
    'tableschema.Field.cast_value (with the schema\'s missingValues) is the reference cast, as the statement says',
    'custom handlers do not mutate the row; transforms are pure',
]
BUDGET = {'quick': dict(examples=4800, shards=16, seconds=70),
          'thorough': dict(examples=200000, shards=16, seconds=1200)}

TARGETS = [
    # (natives that compare equal across classes - 1 / True / 1.0, 0 / False - early and late in the pools)
    ({'type': 'integer'}, ['0', '12', '-3', '007', 5, 1, 0, -2, 'x', '1.5', '', '1e3', ' 4', None, True, False, 1.0, '٣']),
    ({'type': 'integer', 'bareNumber': False}, ['12', '$12', '12%', 'x', '']),
    ({'type': 'number'}, ['1.5', '-0.25', '1e3', 1, 0, 'abc', '1,5', 'NaN', '', 3, 2.5, None, '1 000', True, False, 1.0]),
    ({'type': 'number', 'decimalChar': ',', 'groupChar': '.'}, ['1,5', '1.000,5', '1.5', 'x', '']),
    ({'type': 'boolean'}, ['true', 'false', 'True', True, False, '0', '1', 'yes', 'no', '', 'TRUE', 'f', 1, 0, 1.0]),
    ({'type': 'boolean', 'trueValues': ['yes'], 'falseValues': ['no']}, ['yes', 'no', 'true', '']),
    ({'type': 'date'}, ['2020-01-31', '2020-13-01', '31/01/2020', 'x', '', datetime.date(2020, 2, 29), '2021-02-29']),
    ({'type': 'date', 'format': '%d/%m/%Y'}, ['31/01/2020', '2020-01-31', '32/01/2020', '', '1/2/2020']),
    ({'type': 'year'}, ['2020', '0', '-5', '20x', 2020, '', '12345']),
    ({'type': 'string', 'constraints': {'minLength': 2}}, ['a', 'ab', 'abc', '', None, 'é']),
    ({'type': 'string', 'constraints': {'enum': ['a', 'abc']}}, ['a', 'ab', 'abc', '']),
    ({'type': 'string', 'constraints': {'pattern': 'a.*'}}, ['a', 'ba', 'abc', '']),
    ({'type': 'integer', 'constraints': {'minimum': 0}}, ['-1', '5', '0', 'x', '']),
    ({'type': 'integer', 'constraints': {'required': True}}, ['1', '', None, 'x']),
    ({'type': 'datetime'}, ['2020-01-31T10:00:00Z', '2020-01-31 10:00', 'x', '']),
    ({'type': 'array'}, ['[1,2]', '{"a":1}', 'x', [1], '']),
    # options without a type: only constraints are added to the (any-typed) field
    ({'constraints': {'enum': ['a', 'abc', 1]}}, ['a', 'ab', 'abc', 1, 2, '', None]),
    ({'constraints': {'required': True}}, ['a', '', None, 5]),
]
POLICIES = ['raise', 'drop', 'ignore', 'clear', 'custom4', 'custom5', 'custom5d', 'default']


@st.composite
def base_table(draw):
    n_f = draw(st.integers(1, 4))
    names = draw(st.lists(st.sampled_from(['a', 'ab', 'a.b', 'x1', 'x2', 'x10', 'a+', 'val', 'A']), min_size=n_f,
                          max_size=n_f, unique=True))
    targets = [draw(st.integers(0, len(TARGETS) - 1)) for _ in names]
    n = draw(st.integers(1, 25 if draw(st.booleans()) else 6))
    rows = []
    for _ in range(n):
        row = {}
        for nm, ti in zip(names, targets):
            pool = TARGETS[ti][1]
            # bias towards the first (mostly valid) half so that all-valid rows are common
            row[nm] = draw(st.sampled_from(pool[:max(2, len(pool) // 2)] if draw(st.integers(0, 2)) else pool))
        rows.append(row)
    if gen.rare(draw, 25):
        # more than 1000 rows whose values are already native (nothing to convert), followed by the drawn rows
        head = {}
        for nm, ti in zip(names, targets):
            t = TARGETS[ti][0].get('type', 'any')
            head[nm] = {'integer': 5, 'number': 3, 'boolean': True, 'date': datetime.date(2020, 2, 29), 'year': 2020,
                        'string': 'abc', 'array': [1], 'datetime': None}.get(t, 'abc')
        rows = [dict(head) for _ in range(draw(st.integers(1001, 1040)))] + rows
    # schema-level missingValues of the resource: listed strings read as null for every field
    missing = draw(st.sampled_from([None, None, ['', 'n/a', '-'], ['NA']]))
    if missing:
        for row in rows:
            for nm in names:
                if draw(st.integers(0, 5)) == 0:
                    row[nm] = draw(st.sampled_from(missing + ['']))
    return names, targets, rows, missing


@st.composite
def settype_case(draw):
    names, targets, rows, missing = draw(base_table())
    # one set_type call: pick a pattern; every matched field gets the same target options
    regex = draw(st.booleans())
    if regex:
        pat = draw(st.sampled_from([re.escape(n) for n in names] + [r'x\d+', 'a.*', 'a|x1', '.+', 'a.b']))
    else:
        pat = draw(st.sampled_from(names))
    matched = [n for n in names if (re.fullmatch(pat, n) if regex else n == pat)]
    ti = targets[names.index(matched[0])] if matched else draw(st.integers(0, len(TARGETS) - 1))
    # the matched fields all hold values for the same target
    for r in rows:
        for n in matched:
            pool = TARGETS[ti][1]
            if targets[names.index(n)] != ti:
                r[n] = draw(st.sampled_from(pool))
    transform = draw(st.sampled_from([None, None, 'strip', 'rowaware', 'fieldaware']))
    has_other = draw(st.booleans())
    sel = draw(st.sampled_from(['default', 'res1', ['res1'], -1, 1 if has_other else 0, 'res.'] +
                               ([] if has_other else [None])))
    return {'proc': 'set_type', 'names': names, 'rows': rows, 'pattern': pat, 'regex': regex,
            'options': copy.deepcopy(TARGETS[ti][0]), 'policy': draw(st.sampled_from(POLICIES)),
            'decisions': draw(st.lists(st.booleans(), min_size=1, max_size=6)),
            'transform': transform, 'has_other': has_other, 'sel': sel, 'missing': missing}


@st.composite
def validate_case(draw):
    names, targets, rows, missing = draw(base_table())
    kind = draw(st.sampled_from(['schema', 'schema', 'rowfn', 'fieldfn']))
    has_other = draw(st.booleans())
    sel = draw(st.sampled_from(['res1', ['res1'], 1 if has_other else 0, -1] + ([] if has_other else [None])))
    c = {'proc': 'validate', 'kind': kind, 'names': names, 'rows': rows,
         'declared': [dict({'type': 'any'}, **copy.deepcopy(TARGETS[t][0])) for t in targets],
         'policy': draw(st.sampled_from(POLICIES)), 'decisions': draw(st.lists(st.booleans(), min_size=1, max_size=6)),
         'has_other': has_other, 'sel': sel, 'missing': missing}
    if kind != 'schema':
        c['fn_field'] = draw(st.sampled_from(names))
        c['fn'] = draw(st.sampled_from(['is_str', 'truthy', 'short']))
    return c


def cases(tier):
    return st.one_of(settype_case(), settype_case(), validate_case())


# ------------------------------------------------------------------ callables
def tr_strip(v):
    return v.strip() if isinstance(v, str) else v


def tr_rowaware(v, row):
    return v if len(row) % 2 else (v.strip() if isinstance(v, str) else v)


def tr_fieldaware(v, field_name=None):
    return v.replace(field_name, '') if isinstance(v, str) and field_name else v


TRANSFORMS = {'strip': tr_strip, 'rowaware': tr_rowaware, 'fieldaware': tr_fieldaware}


def apply_transform(name, v, field_name, row):
    if name == 'strip':
        return tr_strip(v)
    if name == 'rowaware':
        return tr_rowaware(v, row)
    return tr_fieldaware(v, field_name)


def fn_is_str(v):
    return isinstance(v, str)


def fn_truthy(v):
    return bool(v)


def fn_short(v):
    return v is None or len(str(v)) <= 2


FNS = {'is_str': fn_is_str, 'truthy': fn_truthy, 'short': fn_short}


def make_handler(policy, decisions, log):
    sv = dataflows.base.schema_validator
    if policy == 'default':
        return None
    if policy == 'raise':
        return sv.raise_exception
    if policy == 'drop':
        return sv.drop
    if policy == 'ignore':
        return sv.ignore
    if policy == 'clear':
        return sv.clear
    state = {'n': 0}
    if policy == 'custom4':
        def h4(res_name, row, i, e):
            d = decisions[state['n'] % len(decisions)]
            state['n'] += 1
            log.append((res_name, i, None, type(e).__name__ if e is not None else None))
            return d
        return h4

    if policy == 'custom5d':
        # fifth parameter declared with a default: still a 5-argument handler
        def h5d(res_name, row, i, e, field=None):
            d = decisions[state['n'] % len(decisions)]
            state['n'] += 1
            log.append((res_name, i, field.name if field is not None else None, type(e).__name__ if e is not None else None))
            return d
        return h5d

    def h5(res_name, row, i, e, field):
        d = decisions[state['n'] % len(decisions)]
        state['n'] += 1
        log.append((res_name, i, field.name if field is not None else None, type(e).__name__ if e is not None else None))
        return d
    return h5


def strict_eq(a, b):
    if type(a) is not type(b):
        return False
    if isinstance(a, dict):
        return set(a) == set(b) and all(strict_eq(a[k], b[k]) for k in a)
    if isinstance(a, (list, tuple)):
        return len(a) == len(b) and all(strict_eq(x, y) for x, y in zip(a, b))
    if isinstance(a, (float, decimal.Decimal)) and a != a:
        return b != b
    return a == b


class Raised(Exception):
    def __init__(self, index, row):
        self.index, self.row = index, row


def policy_model(rows, checked_fields, policy, decisions, cast, transform=None):
    """checked_fields: list of (name, tableschema.Field). Returns (rows_out, handler_log) or raises Raised."""
    out, log = [], []
    n_calls = 0
    for i, src in enumerate(rows):
        row = dict(src)
        if transform:
            for name, _ in checked_fields:
                row[name] = apply_transform(transform, row.get(name), name, row)
        keep = True
        for name, field in checked_fields:
            try:
                row[name] = cast(field, row.get(name))
            except tableschema.exceptions.CastError:
                if policy in ('raise', 'default'):
                    raise Raised(i, dict(row))
                if policy == 'drop':
                    keep = False
                elif policy == 'ignore':
                    pass
                elif policy == 'clear':
                    row[name] = None
                else:
                    d = decisions[n_calls % len(decisions)]
                    n_calls += 1
                    log.append(('res1', i, name if policy in ('custom5', 'custom5d') else None, 'CastError'))
                    if not d:
                        keep = False
        if keep:
            out.append(row)
    return out, log


def check(case, ctx):
    names = case['names']
    classes = [case['proc'], 'policy:' + case['policy']]
    log = []
    handler = make_handler(case['policy'], case['decisions'], log)
    other = {'name': 'other', 'fields': [{'name': 'zz', 'type': 'string'}], 'rows': [{'zz': 'keep'}, {'zz': 'x'}]}
    reject = None
    mv = case.get('missing') or ['']
    if case.get('missing'):
        classes.append('schema-level-missingValues')
    if case['proc'] == 'set_type':
        flds = [{'name': n, 'type': 'any'} for n in names]
        pkg = ([other] if case['has_other'] else []) + [{'name': 'res1', 'fields': flds, 'rows': case['rows'],
                                                         'schema_extra': {'missingValues': mv}}]
        desc = gen.descriptor_of(pkg)
        matched = [n for n in names if (re.fullmatch(case['pattern'], n) if case['regex'] else n == case['pattern'])]
        kw = dict(copy.deepcopy(case['options']))
        if case['sel'] != 'default':
            kw['resources'] = copy.deepcopy(case['sel'])
        if case['transform']:
            kw['transform'] = TRANSFORMS[case['transform']]
        if handler is not None:
            kw['on_error'] = handler
        step = dataflows.set_type(case['pattern'], regex=case['regex'], **kw)
        if not matched:
            reject = 'no field matches'
        new_fields = []
        for n in names:
            d = {'name': n, 'type': 'any'}
            if n in matched:
                d.update(case['options'])
            new_fields.append(d)
        schema = tableschema.Schema({'fields': new_fields, 'missingValues': mv})
        checked = [(f.name, f) for f in schema.fields if f.name in matched]
        transform = case['transform']
        if transform:
            classes.append('transform')
        classes.append('matched=%d' % min(len(matched), 3))
    else:
        flds = [dict(d, name=n) for n, d in zip(names, case['declared'])]
        pkg = ([other] if case['has_other'] else []) + [{'name': 'res1', 'fields': flds, 'rows': case['rows'],
                                                         'schema_extra': {'missingValues': mv}}]
        desc = gen.descriptor_of(pkg)
        kw = {'resources': copy.deepcopy(case['sel'])}
        if handler is not None:
            kw['on_error'] = handler
        args = []
        if case['kind'] == 'rowfn':
            fn, fld = FNS[case['fn']], case['fn_field']
            args = [lambda row, fn=fn, fld=fld: fn(row.get(fld))]
        elif case['kind'] == 'fieldfn':
            args = [case['fn_field'], FNS[case['fn']]]
        step = dataflows.validate(*args, **kw)
        schema = tableschema.Schema({'fields': flds, 'missingValues': mv})
        checked = [(f.name, f) for f in schema.fields]
        transform = None
        classes.append('validate:' + case['kind'])

    def cast(field, v):
        return field.cast_value(v)
    exp_rows = exp_log = raised = None
    if reject is None:
        try:
            if case['proc'] == 'validate' and case['kind'] != 'schema':
                exp_rows, exp_log = [], []
                k = 0
                fn, fld = FNS[case['fn']], case['fn_field']
                for i, r in enumerate(case['rows']):
                    if fn(r.get(fld)):
                        exp_rows.append(dict(r))
                        continue
                    p = case['policy']
                    if p in ('raise', 'default'):
                        raise Raised(i, dict(r))
                    if p == 'ignore':
                        exp_rows.append(dict(r))
                    elif p in ('drop', 'clear'):
                        pass        # clear without a field cannot clear anything: documented to drop
                    else:
                        d = case['decisions'][k % len(case['decisions'])]
                        k += 1
                        exp_log.append(('res1', i, None, None))
                        if d:
                            exp_rows.append(dict(r))
            else:
                exp_rows, exp_log = policy_model(case['rows'], checked, case['policy'], case['decisions'], cast, transform)
        except Raised as r:
            raised = r
    tables = gen.tables_of(pkg)
    try:
        out, out_desc, _ = run_results([step], desc, tables, on_error=None)
    except Exception as e:
        rc = root_cause(e)
        if reject is not None and isinstance(rc, AssertionError):
            return Info(rejected=True, classes=classes + ['rejected:' + reject])
        if raised is not None and isinstance(rc, dataflows.ValidationError):
            if not isinstance(e, ProcessorError):
                raise Violation('raise:not-wrapped-in-ProcessorError', {'type': type(e).__name__})
            if rc.index != raised.index:
                raise Violation('raise:wrong-index', {'got': rc.index, 'expected': raised.index})
            if not strict_eq(dict(rc.row), raised.row):
                raise Violation('raise:wrong-row', {'got': dict(rc.row), 'expected': raised.row})
            if rc.resource_name != 'res1':
                raise Violation('raise:wrong-resource', {'got': rc.resource_name})
            nt = raised.index < len(case['rows']) - 1
            return Info(nontrivial=nt, classes=classes + ['raised'])
        raise unexpected(e, case['proc'])
    if reject is not None:
        raise Violation('accepted-input-the-docs-reject', {'why': reject})
    if raised is not None:
        raise Violation('raise:run-completed-despite-invalid-value', {'index': raised.index, 'row': raised.row})
    ri = 1 if case['has_other'] else 0
    got = out[ri]
    if len(got) != len(exp_rows):
        raise Violation('%s:row-count' % case['policy'], {'got': len(got), 'expected': len(exp_rows),
                                                         'got_rows': got[:5], 'expected_rows': exp_rows[:5]})
    for g, e in zip(got, exp_rows):
        if not strict_eq(g, e):
            raise Violation('%s:row-values' % case['policy'], {'got': g, 'expected': e})
    if case['policy'] in ('custom4', 'custom5', 'custom5d') and log != exp_log:
        raise Violation('handler-call-log', {'got': log[:8], 'expected': exp_log[:8]})
    if case['has_other'] and out[0] != other['rows']:
        raise Violation('bystander-changed', {'got': out[0]})
    if case['proc'] == 'set_type':
        got_types = dict(schema_sig(out_desc, ri))
        for n in names:
            want = case['options'].get('type', 'any') if n in matched else 'any'
            if got_types.get(n) != want:
                raise Violation('set_type:schema-type', {'field': n, 'got': got_types.get(n), 'expected': want})
    # non-triviality: position / multiplicity of invalid cells
    bad_rows = []
    for i, src in enumerate(case['rows']):
        nb = 0
        row = dict(src)
        for name, field in checked:
            v = apply_transform(transform, row.get(name), name, row) if transform else row.get(name)
            try:
                field.cast_value(v)
            except tableschema.exceptions.CastError:
                nb += 1
        if nb:
            bad_rows.append((i, nb))
    nt = any(i < len(case['rows']) - 1 for i, _ in bad_rows) or any(nb >= 2 for _, nb in bad_rows)
    if bad_rows:
        classes.append('has-invalid')
    return Info(nontrivial=nt, classes=classes)
