"""C17 - filter_rows, deduplicate and unpivot neither lose nor invent data.

Oracle: list-based reference models written from PROCESSORS.md + the property text,
compared with the raw datastream output (rows as dicts, schema as (name, type) list)."""
import re
import copy
import decimal

from hypothesis import strategies as st

from vlib import gen
from vlib.kernel import Violation, Info, run_steps, unexpected, dataflows

PID = 'C17'
LEVEL = 'exploration'
RULE = ('cases = (op in filter/dedupe/dedupe-twice/unpivot) x 1-2 typed resources x generated arguments; '
        'non-trivial: filter passes some but not all rows | duplicate keys exist | >=2 unpivoted fields and >=2 rows; '
        'distinct by canonical hash of the whole case')
ASSUMPTIONS = [
    'filter conditions return booleans; equals/not_equals keys name existing fields',
    'primary-key fields are hashable scalar types (string, integer, number, boolean, date)',
    'unpivot key/value target names are disjoint from the kept field names; every spec entry defines every extra key',
    'unpivot regex names are patterns that cannot match the empty string',
]
BUDGET = {'quick': dict(examples=4800, shards=16, seconds=70),
          'thorough': dict(examples=200000, shards=16, seconds=1200)}

RES = ['res1', 'res2']
KEY_TYPES = ['string', 'integer', 'number', 'boolean', 'date']


# ------------------------------------------------------------------ predicates library
def build_condition(spec):
    k = spec['kind']
    f = spec.get('field')
    if k == 'true':
        return lambda row: True
    if k == 'false':
        return lambda row: False
    if k == 'is_null':
        return lambda row: row[f] is None
    if k == 'not_null':
        return lambda row: row[f] is not None
    if k == 'eq':
        v = spec['value']
        return lambda row: row[f] == v
    if k == 'ne':
        v = spec['value']
        return lambda row: row[f] != v
    if k == 'even':
        return lambda row: row[f] is not None and row[f] % 2 == 0
    raise AssertionError('harness: unknown condition %r' % spec)


def model_old_style(equals, not_equals):
    def cond(row):
        return any(row[k] == v for o in equals for k, v in o.items()) or \
            any(row[k] != v for o in not_equals for k, v in o.items())
    return cond


# ------------------------------------------------------------------ generators
@st.composite
def _pool_rows(draw, flds, max_rows, pool_size=3):
    """Rows whose cells come from small per-field pools, so duplicates / equalities are common."""
    pools = {}
    for f in flds:
        vals = draw(st.lists(gen.value(f['type'], hard=True), min_size=1, max_size=pool_size))
        # values that are easily confused: equal hashes (-1/-2, 0/2**61-1), equal after str()/strip()
        confusable = {'integer': [[-1, -2], [0, 2 ** 61 - 1], [1, 10]],
                      'string': [['a', 'a '], ['1', '01'], ['', ' ']],
                      'number': [[decimal.Decimal('1.0'), decimal.Decimal('1.00')], [decimal.Decimal('-1'), decimal.Decimal('-2')]],
                      }.get(f['type'])
        if confusable and draw(st.integers(0, 3)) == 0:
            vals = vals + draw(st.sampled_from(confusable))
        pools[f['name']] = vals + [None]
    n = draw(st.integers(0, max_rows))
    rows = []
    for _ in range(n):
        rows.append({f['name']: draw(st.sampled_from(pools[f['name']])) for f in flds})
    return rows, pools


@st.composite
def filter_case(draw):
    flds = draw(gen.fields(1, 4, names=gen.FIELD_NAMES, types=['string', 'integer', 'number', 'boolean', 'date', 'array']))
    rows, pools = draw(_pool_rows(flds, 12))
    other = draw(st.one_of(st.none(), gen.resource('res2', max_rows=4)))
    mode = draw(st.sampled_from(['callable', 'old', 'old']))
    if mode == 'callable':
        f = draw(st.sampled_from(flds))
        kinds = ['true', 'false', 'is_null', 'not_null', 'eq', 'ne'] + (['even'] if f['type'] == 'integer' else [])
        kind = draw(st.sampled_from(kinds))
        spec = {'kind': kind, 'field': f['name']}
        if kind in ('eq', 'ne'):
            spec['value'] = draw(st.sampled_from(pools[f['name']]))
        args = {'mode': 'callable', 'condition': spec}
    else:
        def cond_dicts():
            return st.lists(
                st.lists(st.sampled_from(flds), min_size=1, max_size=2, unique_by=lambda x: x['name']).flatmap(
                    lambda fs: st.tuples(*[st.sampled_from(pools[f['name']]) for f in fs]).map(
                        lambda vs: {f['name']: v for f, v in zip(fs, vs)})),
                min_size=0, max_size=2)
        args = {'mode': 'old', 'equals': draw(cond_dicts()), 'not_equals': draw(cond_dicts())}
    res = [{'name': 'res1', 'fields': flds, 'rows': rows}]
    if other:
        res.insert(draw(st.integers(0, 1)), other)
    return {'op': 'filter', 'pkg': res, 'args': args}


@st.composite
def dedupe_case(draw):
    flds = draw(gen.fields(1, 4, names=gen.FIELD_NAMES, types=KEY_TYPES))
    extra = draw(st.lists(st.sampled_from(['array', 'object', 'string']), max_size=1))
    flds = flds + [{'name': 'payload%d' % i, 'type': t} for i, t in enumerate(extra)]
    key_fields = [f for f in flds if f['type'] in KEY_TYPES and not f['name'].startswith('payload')]
    pk = draw(st.lists(st.sampled_from([f['name'] for f in key_fields]), min_size=0, max_size=2, unique=True))
    rows, _ = draw(_pool_rows(flds, 14, pool_size=2))
    other = draw(st.one_of(st.none(), gen.resource('res2', max_rows=4)))
    res = [{'name': 'res1', 'fields': flds, 'rows': rows, 'pk': pk}]
    if draw(st.booleans()):
        # a second resource with the same schema, key and value pools: deduplicated in the same step (resources=None)
        rows2 = [dict(r) for r in draw(st.permutations(rows))][:draw(st.integers(0, len(rows)))] if rows else []
        res.append({'name': 'res2', 'fields': copy.deepcopy(flds), 'rows': rows2, 'pk': list(pk)})
        return {'op': 'dedupe_all', 'pkg': res, 'args': {}}
    if other:
        res.insert(draw(st.integers(0, 1)), other)
    return {'op': draw(st.sampled_from(['dedupe', 'dedupe2'])), 'pkg': res, 'args': {}}


UNPIVOT_NAMES = ['x1', 'x2', 'x10', 'y1', 'y2', 'a_2000', 'a_2001', 'b_2000', 'val', 'x', 'xx', 'a.b', 'a+', 'a|b']
# (pattern, templates usable with it) ; none can match the empty string
UNPIVOT_PATTERNS = [
    (r'x(\d+)', [r'\1', r'n\1', 'const']),
    (r'([xy])(\d)', [r'\1', r'\2', r'\2-\1', r'\g<0>']),
    (r'(?P<p>[ab])_(?P<y>\d{4})', [r'\g<y>', r'\g<p>', r'\1:\2']),
    (r'[xy]\d+', ['const', r'\g<0>']),
    (r'x+', [r'\g<0>', 'K']),
    (r'.+', [r'\g<0>']),
    (r'x1|x10', [r'\g<0>', 'K']),
    (r'x|xx', [r'\g<0>', 'K']),
    (r'a\.b', ['K']),
    (r'val', ['V', r'\g<0>']),
]


@st.composite
def unpivot_case(draw):
    n_keep = draw(st.integers(0, 2))
    keep = draw(st.lists(st.sampled_from(['id', 'name', 'k e', 'Z']), min_size=n_keep, max_size=n_keep, unique=True))
    cols = draw(st.lists(st.sampled_from(UNPIVOT_NAMES), min_size=1, max_size=5, unique=True))
    vtype = draw(st.sampled_from(['string', 'integer', 'number', 'date']))
    flds = [{'name': k, 'type': draw(st.sampled_from(['string', 'integer']))} for k in keep] + \
           [{'name': c, 'type': vtype} for c in cols]
    flds = draw(st.permutations(flds))
    regex = draw(st.booleans())
    n_keys = draw(st.integers(1, 2))
    key_names = ['k1', 'k2'][:n_keys]
    specs = []
    n_specs = draw(st.integers(1, 3))
    for _ in range(n_specs):
        if regex and draw(st.booleans()):
            pat, templates = draw(st.sampled_from(UNPIVOT_PATTERNS))
            keys = {k: draw(st.one_of(st.sampled_from(templates), st.integers(0, 3))) for k in key_names}
            specs.append({'name': pat, 'keys': keys})
        else:
            nm = draw(st.sampled_from(cols + ['missing']))
            lit = re.escape(nm) if regex else nm
            # (with regex=False key values are literal text, whatever they contain)
            keys = {k: draw(st.one_of(st.sampled_from(['c', 'd', nm] + ([] if regex else ['net\\total', 'a\\\\b', '\\g<0>', '\\1x', 'tab\\t'])),
                                      st.integers(0, 3))) for k in key_names}
            if regex:
                # constant strings go through re.sub as templates: keep them free of backslashes
                keys = {k: (v.replace('\\', '') if isinstance(v, str) else v) for k, v in keys.items()}
            specs.append({'name': lit, 'keys': keys})
    rows = draw(gen.rows_for(flds, 0, 6, hard=True))
    other = draw(st.one_of(st.none(), gen.resource('res2', max_fields=3, max_rows=3, names=['q', 'r', 's'])))
    res = [{'name': 'res1', 'fields': list(flds), 'rows': rows}]
    if other:
        res.insert(draw(st.integers(0, 1)), other)
    return {'op': 'unpivot', 'pkg': res,
            'args': {'unpivot_fields': specs,
                     'extra_keys': [{'name': k, 'type': 'any'} for k in key_names],
                     'extra_value': {'name': 'value', 'type': vtype},
                     'regex': regex}}


def cases(tier):
    return st.one_of(filter_case(), dedupe_case(), unpivot_case())


# ------------------------------------------------------------------ model + check
def model_unpivot(field_names, rows, args):
    remaining = list(field_names)
    selected = []
    for spec in args['unpivot_fields']:
        if args['regex']:
            pat = re.compile(spec['name'])
            hit = [f for f in remaining if pat.fullmatch(f)]
        else:
            pat = None
            hit = [f for f in remaining if f == spec['name']]
        remaining = [f for f in remaining if f not in hit]
        for f in hit:
            keys = {}
            for k, v in spec['keys'].items():
                if pat is not None and isinstance(v, str):
                    keys[k] = pat.fullmatch(f).expand(v)
                else:
                    keys[k] = v
            selected.append((f, keys))
    out = []
    vname = args['extra_value']['name']
    for row in rows:
        for f, keys in selected:
            new = dict(keys)
            for k in remaining:
                new[k] = row[k]
            new[vname] = row[f]
            out.append(new)
    out_fields = remaining + [k['name'] for k in args['extra_keys']] + [vname]
    return out_fields, out, selected


def schema_sig(desc, name):
    for r in desc['resources']:
        if r['name'] == name:
            return [(f['name'], f['type']) for f in r['schema']['fields']]
    return None


def check(case, ctx):
    op = case['op']
    pkg = case['pkg']
    desc = gen.descriptor_of(pkg)
    tables = gen.tables_of(pkg)
    ti = [r['name'] for r in pkg].index('res1')
    src = pkg[ti]
    names = [f['name'] for f in src['fields']]
    a = case['args']
    classes = [op]
    if op == 'filter':
        if a['mode'] == 'callable':
            cond = build_condition(a['condition'])
            steps = [dataflows.filter_rows(condition=build_condition(a['condition']), resources='res1')]
            classes.append('filter:callable:' + a['condition']['kind'])
        else:
            cond = model_old_style(a['equals'], a['not_equals'])
            steps = [dataflows.filter_rows(equals=copy.deepcopy(a['equals']),
                                           not_equals=copy.deepcopy(a['not_equals']), resources='res1')]
            classes.append('filter:old')
        exp_rows = [r for r in src['rows'] if cond(r)]
        exp_fields = [(f['name'], f['type']) for f in src['fields']]
        nontrivial = 0 < len(exp_rows) < len(src['rows'])
    elif op in ('dedupe', 'dedupe2', 'dedupe_all'):
        pk = src['pk']
        steps = [dataflows.deduplicate(resources='res1')] * 1
        if op == 'dedupe_all':
            steps = [dataflows.deduplicate()]
        if op == 'dedupe2':
            steps = [dataflows.deduplicate(resources='res1'), dataflows.deduplicate(resources='res1')]
        if pk:
            seen = []
            exp_rows = []
            for r in src['rows']:
                key = tuple(r[k] for k in pk)
                if key in seen:
                    continue
                seen.append(key)
                exp_rows.append(r)
        else:
            exp_rows = list(src['rows'])
        exp_fields = [(f['name'], f['type']) for f in src['fields']]
        nontrivial = len(exp_rows) < len(src['rows'])
        classes.append('dedupe:pk%d' % len(pk))
        if any(r[k] is None for r in src['rows'] for k in pk):
            classes.append('dedupe:null-in-key')
    else:
        steps = [dataflows.unpivot(copy.deepcopy(a['unpivot_fields']), copy.deepcopy(a['extra_keys']),
                                   copy.deepcopy(a['extra_value']), regex=a['regex'], resources='res1')]
        out_names, exp_rows, selected = model_unpivot(names, src['rows'], a)
        types = {f['name']: f['type'] for f in src['fields']}
        exp_fields = []
        for n in out_names:
            if n in types and n not in [k['name'] for k in a['extra_keys']] and n != a['extra_value']['name']:
                exp_fields.append((n, types[n]))
        exp_fields += [(k['name'], k['type']) for k in a['extra_keys']]
        exp_fields.append((a['extra_value']['name'], a['extra_value']['type']))
        nontrivial = len(selected) >= 2 and len(src['rows']) >= 2
        classes.append('unpivot:regex' if a['regex'] else 'unpivot:literal')
        classes.append('unpivot:selected=%d' % min(len(selected), 4))
    try:
        out_desc, out_rows = run_steps(steps, desc, tables)
    except Exception as e:
        raise unexpected(e, op)
    # --- oracle
    if len(out_rows) != len(pkg):
        raise Violation('%s:resource-count' % op, {'got': len(out_rows), 'expected': len(pkg)})
    got = out_rows[ti]
    if got != exp_rows:
        kind = 'rows'
        if len(got) != len(exp_rows):
            kind = 'row-count'
        elif sorted(map(repr, got)) == sorted(map(repr, exp_rows)):
            kind = 'row-order'
        raise Violation('%s:%s' % (op, kind), {'got': got[:6], 'expected': exp_rows[:6],
                                               'n_got': len(got), 'n_expected': len(exp_rows)})
    got_fields = schema_sig(out_desc, 'res1')
    if got_fields != exp_fields:
        raise Violation('%s:schema' % op, {'got': got_fields, 'expected': exp_fields})
    if op == 'dedupe_all':
        # every resource is de-duplicated on its own (keys seen in one resource do not count in another)
        for i, r in enumerate(pkg):
            seen, exp = [], []
            for row in r['rows']:
                key = tuple(row[k] for k in r['pk'])
                if r['pk'] and key in seen:
                    continue
                seen.append(key)
                exp.append(row)
            if out_rows[i] != exp:
                raise Violation('dedupe_all:rows', {'resource': r['name'], 'n_got': len(out_rows[i]), 'n_expected': len(exp)})
        return Info(nontrivial=nontrivial, classes=classes + ['dedupe:several-resources'])
    # bystander resource untouched
    for i, r in enumerate(pkg):
        if i != ti:
            if out_rows[i] != r['rows'] or schema_sig(out_desc, r['name']) != [(f['name'], f['type']) for f in r['fields']]:
                raise Violation('%s:bystander-changed' % op, {'resource': r['name']})
            classes.append('with-bystander')
    return Info(nontrivial=nontrivial, classes=classes)
