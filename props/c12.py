"""C12 - sort_rows emits a stable, correctly ordered permutation.

Oracle: validity predicate over the output (permutation; non-decreasing under a reference key;
equal keys keep input order), plus metamorphic relations (reverse = exact reverse; independent
of batch_size; independent of crossing the in-memory cache)."""
import copy
import decimal
import datetime
import fractions

from hypothesis import strategies as st

from vlib import gen
from vlib.kernel import Violation, Info, run_steps, unexpected, dataflows

PID = 'C12'
LEVEL = 'exploration'
RULE = ('cases = tables of 0-150 rows (sparse: 10241-10400 rows, beyond the 10240-entry cache) with duplicate keys x key as '
        'field list / format string (raw and with format specs) / callable x reverse x batch_size in {1,2,7,1000}; numeric '
        'key fields hold ints, floats, Decimals (negative, fractional, huge, -0.0), string key field (always last) holds '
        'prefixes of one another, hex-digit tails, unicode; non-trivial: >=2 rows share a key and the input has >=1 '
        'inversion; distinct by canonical case hash')
ASSUMPTIONS = [
    'key fields are non-null; a string component is only used as the last key component (the order of concatenated '
    'variable-width components is not defined by the docs)',
    'numeric order is checked at double precision (two numbers that are equal as doubles may appear in either order); '
    'stability is required only for keys that are exactly equal',
    'format specs used in keys render fixed-width text for the generated domain (e.g. {n:04d} over 0..9999)',
]
BUDGET = {'quick': dict(examples=2400, shards=16, seconds=70),
          'thorough': dict(examples=60000, shards=16, seconds=1200)}

STR_POOL = ['a', 'a0', 'a00', 'a1', 'ab', 'abc', 'b', 'B', 'a ', 'é', 'z', '', '0', '00', 'f', 'ff', 'a\U0001F600', 'aé', '~', 'a~',
            # text that differs only beyond 255 / 300 characters; text that is not in Unicode normal form C
            'p' * 300 + 'b', 'p' * 300 + 'a', 'p' * 255 + 'z', 'p' * 255 + 'y', 'e\u0301', 'f', '\u212b', '\u00c5', '\u2126', '\u03a9', 'e\u0300x']


def numbers():
    exact_dec = gen.floats_finite().map(lambda f: decimal.Decimal(f))
    return st.one_of(
        st.integers(-20, 20),
        st.integers(-2 ** 53, 2 ** 53),
        st.sampled_from([0, -1, 1, 2 ** 53, -2 ** 53, 2 ** 53 + 1, 10 ** 30, -10 ** 30, 10 ** 30 + 1]),
        gen.floats_finite(),
        st.sampled_from([0.5, -0.5, 1e300, -1e300, 5e-324, -5e-324, -0.0, 0.0, 1.5, -1.5]),
        exact_dec,
        st.sampled_from([decimal.Decimal('0.1'), decimal.Decimal('-0.1'), decimal.Decimal('-0'),
                         decimal.Decimal('1E+30'), decimal.Decimal('2.50'), decimal.Decimal('2.5')]),
    )


PAYLOAD = [None, 'x', 7, decimal.Decimal('1.50'), datetime.datetime(2001, 2, 3, 4, 5, 6, 789012),
           datetime.datetime(2001, 2, 3, 4, 5, 6, tzinfo=datetime.timezone(datetime.timedelta(hours=-3, minutes=-30))),
           datetime.time(1, 2, 3, 456789), datetime.date(987, 6, 5), datetime.date(2020, 2, 29), [1, [2, 'é']], {'k': [None, 1.5]},
           datetime.timedelta(days=1, seconds=2, microseconds=3), True, 2 ** 70, 1e-7]

KEYS = [
    ('list', ['n1']), ('list', ['s']), ('list', ['n1', 'n2']), ('list', ['n1', 's']), ('list', ['n1', 'n2', 's']),
    ('tuple', ['n2', 's']),
    ('fmt', '{n1}'), ('fmt', '{s}'), ('fmt', '{n1}{s}'), ('fmt', '{n1}|{n2}'), ('fmt', '{n1}:{n2}:{s}'),
    ('fmt', 'k-{s}'), ('fmt', '{i:04d}'), ('fmt', '{i:04d}/{s}'), ('fmt', '{n1}-{i:04d}'),
    ('fmt', '{n 3}'), ('fmt', '{n 3}|{s}'), ('list', ['n 3', 's']), ('fmt', '{n-4}:{n 3}'),
    ('callable', 's'), ('callable', 'i'),
]


@st.composite
def small_case(draw):
    kind, spec = draw(st.sampled_from(KEYS))
    pool_n1 = draw(st.lists(numbers(), min_size=1, max_size=5))
    pool_n2 = draw(st.lists(numbers(), min_size=1, max_size=3))
    pool_s = draw(st.lists(st.one_of(st.sampled_from(STR_POOL), gen.text_hard(4, edge_ws=True)), min_size=1, max_size=5))
    if draw(st.integers(0, 5)) == 0:
        # keys that only differ far behind their common beginning
        pool_s = pool_s + ['p' * 300 + 'b', 'p' * 300 + 'a', 'p' * 255 + 'z', 'p' * 255 + 'y']
    n = draw(st.sampled_from([0, 1, 2, 3, 5, 8, 13, 40, 150]))
    if n > 13:
        rnd = draw(st.randoms(use_true_random=False))
        rows = [{'n1': rnd.choice(pool_n1), 'n2': rnd.choice(pool_n2), 's': rnd.choice(pool_s),
                 'i': rnd.randrange(0, 30)} for _ in range(n)]
    else:
        rows = [{'n1': draw(st.sampled_from(pool_n1)), 'n2': draw(st.sampled_from(pool_n2)),
                 's': draw(st.sampled_from(pool_s)), 'i': draw(st.integers(0, 9999))} for _ in range(n)]
    # a payload column (never part of the key) with values a lossy intermediate encoding would change
    for r in rows:
        r['pl'] = draw(st.sampled_from(PAYLOAD))
    return {'size': 'small', 'kind': kind, 'spec': spec, 'rows': rows,
            'batch': draw(st.sampled_from([1, 2, 7, 1000])), 'batch2': draw(st.sampled_from([1, 2, 7, 1000])),
            # the same step also sorts an earlier resource whose same-named key fields hold text
            'companion': draw(st.booleans()), 'resort': draw(st.integers(0, 3)) == 0}


@st.composite
def big_case(draw):
    kind, spec = draw(st.sampled_from([k for k in KEYS if k[0] != 'callable' or True]))
    return {'size': 'big', 'kind': kind, 'spec': spec,
            'n': draw(st.integers(10241, 10400)), 'p': draw(st.sampled_from([7919, 104729, 31])),
            'm': draw(st.sampled_from([50, 5000, 20000])), 'batch': draw(st.sampled_from([7, 1000])),
            'batch2': 1000,
            # an earlier resource sorted by the same step that is itself bigger than the in-memory cache
            'companion': draw(st.booleans()), 'companion_big': True}


@st.composite
def _mix(draw, tier):
    if gen.rare(draw, 30 if tier == 'thorough' else 5):
        return draw(big_case())
    return draw(small_case())


def cases(tier):
    return _mix(tier)


def big_rows(c):
    rows = []
    for i in range(c['n']):
        v = (i * c['p']) % c['m']
        rows.append({'n1': (v - c['m'] // 2) / 4, 'n2': v % 7, 's': 'k%x' % (v % 97), 'i': v % 10000})
    return rows


def build_key(kind, spec):
    if kind == 'list':
        return list(spec)
    if kind == 'tuple':
        return tuple(spec)
    if kind == 'fmt':
        return spec
    if spec == 's':
        return lambda row: str(row['s'])
    return lambda row: '%06d' % row['i']


def components(kind, spec):
    """Reference key structure: list of ('num', field) / ('str', field) / ('fmt', text) parts."""
    import re
    if kind in ('list', 'tuple'):
        return [('num' if f.startswith('n') else 'str', f) for f in spec]
    if kind == 'callable':
        return [('str', 's')] if spec == 's' else [('int', 'i')]
    parts = []
    for lit, fld in re.findall(r'([^{]*)(\{[^}]*\})?', spec):
        if lit:
            parts.append(('lit', lit))
        if fld:
            name = fld[1:-1]
            if ':' in name:
                parts.append(('int', name.split(':')[0]))
            else:
                parts.append(('num' if name.startswith('n') else 'str', name))
    return parts


def ref_keys(comps, row):
    """(float-precision key, exact key): tuples comparable with <."""
    fk, ek = [], []
    for kind, f in comps:
        if kind == 'lit':
            continue
        v = row[f]
        if kind == 'num':
            fk.append(float(v) + 0.0)
            ek.append(fractions.Fraction(v))
        elif kind == 'int':
            fk.append(int(v))
            ek.append(int(v))
        else:
            fk.append(str(v))
            ek.append(str(v))
    return tuple(fk), tuple(ek)


COMPANION_ROWS = [{'_i': 0, 'n1': 'text', 'n2': 'zz', 'n 3': 'text', 'n-4': 'zz', 's': 'b', 'i': 3, 'pl': None},
                  {'_i': 1, 'n1': 'more', 'n2': 'aa', 'n 3': 'more', 'n-4': 'aa', 's': 'a', 'i': 1, 'pl': None}]


def run_sort(rows, key, reverse, batch, companion=False):
    flds = [{'name': '_i', 'type': 'integer'}, {'name': 'n1', 'type': 'any'}, {'name': 'n2', 'type': 'any'},
            {'name': 'n 3', 'type': 'any'}, {'name': 'n-4', 'type': 'any'},
            {'name': 's', 'type': 'string'}, {'name': 'i', 'type': 'integer'}, {'name': 'pl', 'type': 'any'}]
    pkg = [{'name': 'res1', 'fields': flds, 'rows': rows},
           {'name': 'other', 'fields': [{'name': 'q', 'type': 'integer'}], 'rows': [{'q': 3}, {'q': 1}, {'q': 2}]}]
    sel = 'res1'
    if companion:
        crow = copy.deepcopy(COMPANION_ROWS)
        if companion == 'big':
            crow = [dict(COMPANION_ROWS[j % 2], _i=j, s='c%05d' % ((j * 7919) % 10300), i=j % 9000) for j in range(10300)]
        pkg.insert(0, {'name': 'first', 'fields': copy.deepcopy(flds), 'rows': crow})
        sel = ['first', 'res1']
    desc = gen.descriptor_of(pkg)
    kw = {} if batch is None else {'batch_size': batch}
    step = dataflows.sort_rows(key, resources=sel, reverse=reverse, **kw)
    # other sort_rows steps of the same process, built after this one and never run (flows are often defined first and run
    # later): they name the same fields in the other style (plain vs with a format spec) - step instances share nothing
    dataflows.sort_rows(['n1', 'n2', 's', 'i', 'n 3', 'n-4'])
    dataflows.sort_rows('{n1!s:>12}|{n2!s:>12}|{s!s:>6}|{i:06d}|{n 3!s:>12}|{n-4!s:>12}')
    d, out = run_steps([step], desc, gen.tables_of(pkg))
    if out[-1] != [{'q': 3}, {'q': 1}, {'q': 2}]:
        raise Violation('bystander-changed', {'got': out[-1]})
    if companion and sorted(r['_i'] for r in out[0]) != list(range(len(pkg[0]['rows']))):
        raise Violation('companion-resource-not-a-permutation', {'got': out[0]})
    return out[-2]


def check(case, ctx):
    rows = copy.deepcopy(case['rows']) if case['size'] == 'small' else big_rows(case)
    for i, r in enumerate(rows):
        r['_i'] = i
        r['n 3'] = r['n1']          # numeric key fields whose names are not plain identifiers
        r['n-4'] = r['n2']
    comps = components(case['kind'], case['spec'])
    keyed = [ref_keys(comps, r) for r in rows]
    classes = [case['size'], 'key:' + case['kind']]
    try:
        comp = bool(case.get('companion')) and ('big' if case.get('companion_big') else True)
        if comp:
            classes.append('with-text-keyed-companion-resource')
        fwd = run_sort(rows, build_key(case['kind'], case['spec']), False, case['batch'], comp)
        rev = run_sort(rows, build_key(case['kind'], case['spec']), True, case['batch'])
        fwd2 = run_sort(rows, build_key(case['kind'], case['spec']), False, case['batch2']) \
            if case['batch2'] != case['batch'] else None
    except Violation:
        raise
    except Exception as e:
        raise unexpected(e, 'sort_rows')
    # 1. permutation
    for name, out in (('forward', fwd), ('reverse', rev)):
        if sorted(r['_i'] for r in out) != list(range(len(rows))):
            raise Violation('not-a-permutation', {'direction': name, 'n_in': len(rows), 'n_out': len(out)})
        for r in out:
            e = rows[r['_i']]
            if r != e or any(type(r[k]) is not type(e[k]) for k in e):
                raise Violation('row-altered', {'got': r, 'expected': e})
    # 2. order + stability on the forward output
    for a, b in zip(fwd, fwd[1:]):
        fa, ea = keyed[a['_i']]
        fb, eb = keyed[b['_i']]
        if fa > fb:
            sig = 'order'
            # diagnose the cause for bucketing / known-finding matching
            for (ka, xa), (kb, xb) in zip(zip(comps_nolit(comps), fa), zip(comps_nolit(comps), fb)):
                if xa != xb:
                    if ka[0] == 'str' and xa.startswith(xb):
                        sig = 'order:string-key-extends-another-key'
                    elif ka[0] == 'num':
                        sig = 'order:numeric'
                        if (xa == 0 or xb == 0) and ('-0' in repr(rows[a['_i']][ka[1]]) or '-0' in repr(rows[b['_i']][kb[1]])):
                            sig = 'order:negative-zero'
                    break
            raise Violation(sig, {'first': a, 'then': b, 'key': case['spec']})
        if ea == eb and a['_i'] > b['_i']:
            raise Violation('stability', {'first': a, 'then': b, 'key': case['spec']})
    # 3. reverse = exact reverse sequence
    if [r['_i'] for r in rev] != [r['_i'] for r in reversed(fwd)]:
        raise Violation('reverse-is-not-exact-reverse', {'forward': [r['_i'] for r in fwd][:40],
                                                        'reverse': [r['_i'] for r in rev][:40]})
    # 3b. sorting, disturbing the order, and sorting again with the very same key gives a sorted resource again
    if case.get('resort') and case['kind'] != 'callable':
        flds_ = [{'name': '_i', 'type': 'integer'}, {'name': 'n1', 'type': 'any'}, {'name': 'n2', 'type': 'any'},
                 {'name': 'n 3', 'type': 'any'}, {'name': 'n-4', 'type': 'any'}, {'name': 's', 'type': 'string'},
                 {'name': 'i', 'type': 'integer'}, {'name': 'pl', 'type': 'any'}]

        def rev(rows):
            yield from reversed(list(rows))
        try:
            _d, out2 = run_steps([dataflows.sort_rows(build_key(case['kind'], case['spec'])), rev,
                                  dataflows.sort_rows(build_key(case['kind'], case['spec']))],
                                 gen.descriptor_of([{'name': 'res1', 'fields': flds_, 'rows': rows}]), [rows])
        except Exception as e:
            raise unexpected(e, 'sort / reverse / sort')
        for a, b in zip(out2[0], out2[0][1:]):
            if keyed[a['_i']][0] > keyed[b['_i']][0]:
                raise Violation('second-sort-with-the-same-key-leaves-rows-unsorted', {'first': a, 'then': b, 'key': case['spec']})
        classes.append('sorted-twice')
    # 4. independent of batch size
    if fwd2 is not None and [r['_i'] for r in fwd2] != [r['_i'] for r in fwd]:
        raise Violation('depends-on-batch-size', {'batch': case['batch'], 'batch2': case['batch2']})
    exact = [k[1] for k in keyed]
    dup = len(set(exact)) < len(exact)
    inv = any(keyed[i][0] > keyed[i + 1][0] for i in range(len(rows) - 1))
    if dup:
        classes.append('dup-keys')
    return Info(nontrivial=dup and inv, classes=classes, evals=3 if fwd2 is not None else 2)


def comps_nolit(comps):
    return [c for c in comps if c[0] != 'lit']
