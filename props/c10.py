"""C10 - resource selectors mean the same thing in every processor.

Oracle: the harness's own selector model (None / full-match regex / list / index) + two differential
relations on the real code: unselected resources == the pipeline without the step; selected resources ==
the same step with resources=None applied to a package holding only the selected resources."""
import re
import os
import csv
import copy
import json

from hypothesis import strategies as st

from vlib import gen
from vlib.compare import rows_eq, first_diff
from vlib.kernel import (Violation, Info, unexpected, dataflows, root_cause, run_steps, passthrough_desc, quiet,
                         Flow, materialise)

PID = 'C10'
LEVEL = 'exploration'
RULE = ('fixed part (exhaustive): every selector-taking processor (21; parallelize under the C18 scheduler with one worker) x every selector form (None, exact name, escaped '
        'name, ".*", prefix.*, n1|n2 both orders, (n1|n2), dotted name used as regex, lists of 0-3 names, every integer '
        '-n..n-1) x 5 fixed packages of 1-4 resources whose names are prefixes of one another / contain "."; drawn part: '
        'names and selectors drawn by Hypothesis. non-trivial: selection is a proper non-empty subset, or the package has '
        'names that are prefixes of one another; distinct by (processor, selector, names)')
ASSUMPTIONS = [
    'integer selectors are within range; string selectors are valid regular expressions',
    'concatenate is only exercised with a non-empty consecutive selection (its documented precondition)',
    'parallelize runs under the harness-owned scheduler of C18 (one worker); its rows are compared as multisets',
]
EXHAUSTIVE_NOTE = ('the fixed product processors x selector forms x FIXED_PACKAGES is enumerated completely on every run; of the variant products '
                   '(regex=False, one-stream sources, preludes, behind duplicate) the quick tier runs a third per run, rotating with '
                   'VERIF_SEED, the thorough tier all')
BUDGET = {'quick': dict(examples=1600, shards=16, seconds=70),
          'thorough': dict(examples=60000, shards=16, seconds=1200)}

FIXED_PACKAGES = [['b'], ['a', 'ab'], ['a.b', 'a1b', 'axb'], ['a', 'ab', 'a.b', 'a-b'], ['res_1', 'res_10', 'a'],
                  ['1', '2', '3'], ['2020', '2021', '-1']]       # names that look like numbers stay names
PROCS = ['validate', 'deduplicate', 'printer', 'set_type', 'load_package', 'load_tuple', 'sort_rows', 'filter_rows',
         'unpivot', 'concatenate', 'delete_resource', 'update_resource', 'update_schema', 'set_primary_key',
         'add_field', 'add_computed_field', 'find_replace', 'select_fields', 'delete_fields', 'rename_fields', 'parallelize']

FIELDS = [{'name': 'id', 'type': 'integer'}, {'name': 'v', 'type': 'string'}, {'name': 'n', 'type': 'integer'},
          {'name': 'm', 'type': 'integer'}]


def select(selector, names):
    if selector is None:
        return list(range(len(names)))
    if isinstance(selector, str):
        return [i for i, n in enumerate(names) if re.fullmatch(selector, n)]
    if isinstance(selector, int):
        return [range(len(names))[selector]]
    return [i for i, n in enumerate(names) if n in selector]


def selector_forms(names):
    n = len(names)
    forms = [None, '.*', [], list(names), [names[0]], ['zzz'], 'zzz']
    for nm in names:
        forms += [nm, re.escape(nm), nm[:1] + '.*']
    for i in range(n):
        forms += [i, i - n]
    if n >= 2:
        a, b = names[0], names[1]
        forms += [re.escape(a) + '|' + re.escape(b), re.escape(b) + '|' + re.escape(a),
                  '(' + re.escape(a) + '|' + re.escape(b) + ')', [b, a], [a, b, 'zzz']]
    if n >= 3:
        forms += [[names[0], names[2]], re.escape(names[0]) + '|' + re.escape(names[2])]
    out, seen = [], set()
    for f in forms:
        k = json.dumps(f)
        if k not in seen:
            seen.add(k)
            out.append(f)
    return out


# a step applied to ALL resources right before the step under test (it gives every resource the 'same' new fields;
# the step under test then works on exactly those fields): selection must still be per resource
PRELUDES = ['add_field', 'unpivot']
PRELUDE_PROCS = ['set_type', 'rename_fields', 'delete_fields', 'select_fields', 'sort_rows', 'add_field',
                 'add_computed_field', 'update_schema', 'set_primary_key', 'find_replace', 'filter_rows']


def enumerate_cases(tier):
    base = []
    for names in FIXED_PACKAGES:
        for sel in selector_forms(names):
            for p in PROCS:
                base.append({'proc': p, 'names': names, 'sel': sel})
            base.append({'proc': 'load_tuple', 'names': names, 'sel': sel, 'seq_iters': True})
    extras = _enumerate_extras()
    if tier == 'quick':
        # the base product is always complete; of the variant products (regex=False, one-stream sources, preludes) a
        # third is run per quick run, rotating with VERIF_SEED (the thorough tier runs all of them)
        try:
            k = int(os.environ.get('VERIF_SEED', '1') or '1') % 3
        except ValueError:
            k = 1
        extras = [c for i, c in enumerate(extras) if i % 3 == k]
    return base + extras


def _enumerate_extras():
    out = []
    for names in FIXED_PACKAGES[1:]:
        for sel in selector_forms(names):
            for p in REGEX_PROCS:
                out.append({'proc': p, 'names': names, 'sel': sel, 'regex': False})
            for p in ('delete_resource', 'concatenate', 'filter_rows', 'deduplicate'):
                out.append({'proc': p, 'names': names, 'sel': sel, 'seq_iters': True})
    for names in FIXED_PACKAGES[1:4]:
        for sel in selector_forms(names):
            for p in PROCS:
                if p not in ('load_package', 'load_tuple', 'parallelize'):
                    out.append({'proc': p, 'names': names, 'sel': sel, 'upstream_drop': True})
    for names in FIXED_PACKAGES[:3]:
        dup_names = [names[0], names[0] + '_copy'] + list(names[1:])
        for sel in selector_forms(dup_names):
            for p in DUP_PROCS:
                out.append({'proc': p, 'names': names, 'sel': sel, 'prelude': 'duplicate', 'to_end': len(names) % 2 == 0})
    for names in FIXED_PACKAGES[1:4]:
        for sel in selector_forms(names):
            for pre in PRELUDES:
                for p in PRELUDE_PROCS:
                    out.append({'proc': p, 'names': names, 'sel': sel, 'prelude': pre})
    return out


@st.composite
def drawn_case(draw):
    n = draw(st.integers(1, 4))
    names = draw(st.lists(st.sampled_from(gen.RES_NAMES), min_size=n, max_size=n, unique=True))
    sel = draw(st.sampled_from(selector_forms(names) + ['a.b', 'a.*b', '[ab].*', 'res_1.?', '.+b', 'a|ab|abc']))
    c = {'proc': draw(st.sampled_from(PROCS)), 'names': names, 'sel': sel, 'seq_iters': draw(st.booleans())}
    if draw(st.integers(0, 2)) == 0:
        c['proc'] = draw(st.sampled_from(PRELUDE_PROCS))
        c['prelude'] = draw(st.sampled_from(PRELUDES))
    elif c['proc'] in REGEX_PROCS and draw(st.booleans()):
        c['regex'] = False
    elif draw(st.integers(0, 3)) == 0:
        c['upstream_drop'] = True
    elif draw(st.integers(0, 3)) == 0:
        c['proc'] = draw(st.sampled_from(DUP_PROCS))
        c['prelude'] = 'duplicate'
        c['to_end'] = draw(st.booleans())
        c['sel'] = draw(st.sampled_from(selector_forms([names[0], names[0] + '_copy'] + list(names[1:]))))
    return c


def cases(tier):
    return drawn_case()


def make_rows(name, k):
    """Deterministic, distinct rows per resource: duplicates of id, some 'keep' values, unsorted n."""
    rows = []
    for j in range(5):
        rows.append({'id': j % 3, 'v': 'keep' if j % 2 == 0 else 'x%s%d' % (name, j), 'n': (7 * j + k) % 5, 'm': j})
    return rows


def build_pkg(names, bad_rows=False):
    pkg = []
    for k, nm in enumerate(names):
        rows = make_rows(nm, k)
        if bad_rows:
            rows[1]['n'] = 'not-a-number'
        pkg.append({'name': nm, 'fields': copy.deepcopy(FIELDS), 'rows': rows, 'pk': ['id']})
    return pkg


def build_prelude(kind):
    d = dataflows
    if kind == 'add_field':
        return [d.add_field('p0', 'integer', 5), d.add_field('s0', 'string', 'keep-e')]
    if kind == 'unpivot':
        return [d.unpivot([{'name': 'n', 'keys': {'k': 'eN'}}, {'name': 'm', 'keys': {'k': 'eM'}}],
                          [{'name': 'k', 'type': 'string'}], {'name': 'val', 'type': 'integer'})]
    return []


REGEX_PROCS = ['set_type', 'select_fields', 'delete_fields', 'rename_fields', 'unpivot']


def build_step(proc, sel, capture=None, prelude=None, regex=True, keep_object=False):
    if not keep_object:
        sel = copy.deepcopy(sel)
    d = dataflows
    if not regex and not prelude and proc in REGEX_PROCS:
        # regex=False concerns the FIELD names only: the resources selector keeps its meaning
        if proc == 'set_type':
            return d.set_type('n', resources=sel, type='number', regex=False)
        if proc == 'select_fields':
            return d.select_fields(['v', 'id'], resources=sel, regex=False)
        if proc == 'delete_fields':
            return d.delete_fields(['n'], resources=sel, regex=False)
        if proc == 'rename_fields':
            return d.rename_fields({'v': 'w'}, resources=sel, regex=False)
        return d.unpivot([{'name': 'n', 'keys': {'k': 'N'}}, {'name': 'm', 'keys': {'k': 'M'}}],
                         [{'name': 'k', 'type': 'string'}], {'name': 'val', 'type': 'integer'}, regex=False, resources=sel)
    if prelude:
        numf, strf = ('p0', 's0') if prelude == 'add_field' else ('val', 'k')
        if proc == 'set_type':
            return d.set_type(numf, resources=sel, type='number')
        if proc == 'rename_fields':
            return d.rename_fields({numf: 'renamed_num', strf: 'renamed_str'}, resources=sel)
        if proc == 'delete_fields':
            return d.delete_fields([numf], resources=sel)
        if proc == 'select_fields':
            return d.select_fields([strf, 'id'], resources=sel)
        if proc == 'sort_rows':
            return d.sort_rows('{id}{%s}' % strf, resources=sel, reverse=True)
        if proc == 'find_replace':
            return d.find_replace([{'name': strf, 'patterns': [{'find': 'e', 'replace': 'E'}]}], resources=sel)
        if proc == 'filter_rows':
            return d.filter_rows(equals=[{'id': 1}], resources=sel)
        if proc == 'set_primary_key':
            return d.set_primary_key([strf], resources=sel)
    if proc == 'validate':
        return d.validate(resources=sel, on_error=d.base.schema_validator.drop)
    if proc == 'deduplicate':
        return d.deduplicate(resources=sel)
    if proc == 'printer':
        return d.printer(resources=sel, header_print=lambda h, kw: capture.append(h), table_print=lambda t, kw: None)
    if proc == 'set_type':
        return d.set_type('n', resources=sel, type='number')
    if proc == 'sort_rows':
        return d.sort_rows('{n}', resources=sel)
    if proc == 'filter_rows':
        return d.filter_rows(equals=[{'v': 'keep'}], resources=sel)
    if proc == 'unpivot':
        return d.unpivot([{'name': 'n', 'keys': {'k': 'N'}}, {'name': 'm', 'keys': {'k': 'M'}}],
                         [{'name': 'k', 'type': 'string'}], {'name': 'val', 'type': 'integer'}, resources=sel)
    if proc == 'concatenate':
        return d.concatenate({'id': [], 'v': [], 'n': [], 'm': []}, {'name': 'merged', 'path': 'merged.csv'}, resources=sel)
    if proc == 'delete_resource':
        return d.delete_resource(sel)
    if proc == 'update_resource':
        return d.update_resource(sel, title='T')
    if proc == 'update_schema':
        return d.update_schema(sel, missingValues=['', 'NA'])
    if proc == 'set_primary_key':
        return d.set_primary_key(['v'], resources=sel)
    if proc == 'add_field':
        return d.add_field('new', 'string', 'dflt', resources=sel)
    if proc == 'add_computed_field':
        return d.add_computed_field(target='c', operation='constant', with_='k', resources=sel)
    if proc == 'find_replace':
        return d.find_replace([{'name': 'v', 'patterns': [{'find': 'e', 'replace': 'E'}]}], resources=sel)
    if proc == 'select_fields':
        return d.select_fields(['v', 'id'], resources=sel)
    if proc == 'delete_fields':
        return d.delete_fields(['n'], resources=sel)
    if proc == 'rename_fields':
        return d.rename_fields({'v': 'w'}, resources=sel)
    if proc == 'parallelize':
        return d.parallelize(_par_func, num_processors=1, resources=sel)
    raise AssertionError(proc)


def write_package(pkg, d):
    """Harness-written data package on disk (CSV + datapackage.json)."""
    res = []
    for r in pkg:
        path = r['name'].replace('/', '_') + '.csv'
        with open(os.path.join(d, path), 'w', newline='') as f:
            w = csv.writer(f)
            w.writerow([x['name'] for x in r['fields']])
            for row in r['rows']:
                w.writerow([row[x['name']] for x in r['fields']])
        res.append({'name': r['name'], 'path': path, 'profile': 'tabular-data-resource', 'format': 'csv',
                    'schema': {'fields': copy.deepcopy(r['fields'])}})
    dp = os.path.join(d, 'datapackage.json')
    with open(dp, 'w') as f:
        json.dump({'name': 'pkg', 'resources': res}, f)
    return dp


def _par_func(row):
    row['v'] = row['v'] + '!'


def run(steps, pkg, seq=False, scheduled=False):
    if not scheduled:
        return run_steps(steps, gen.descriptor_of(pkg), gen.tables_of(pkg), sequential=seq)
    # parallelize runs under the harness-owned scheduler of C18 (one worker, round-robin schedule)
    from vlib import sched as vsched
    s = vsched.Scheduler([])
    out = {}

    def consumer():
        out['r'] = run_steps(steps, gen.descriptor_of(pkg), gen.tables_of(pkg))
    with vsched.patched(s):
        main = s.run(consumer)
    if main.error is not None:
        raise main.error
    d_, rows = out['r']
    return d_, [sorted(t, key=lambda r: (r.get('id', 0), r.get('m', 0), str(r.get('v')))) for t in rows]


DUP_PROCS = ['set_type', 'rename_fields', 'delete_fields', 'select_fields', 'add_field', 'add_computed_field', 'update_schema',
             'set_primary_key', 'update_resource', 'find_replace', 'filter_rows', 'sort_rows', 'unpivot']


def check_after_duplicate(case, ctx):
    """The step under test runs right behind duplicate(first resource): the package then holds the original and its copy,
    and the selector may pick only one of the twins.  Same oracle: unselected resources equal the pipeline without the
    step, selected ones equal the unrestricted step on a package holding only them."""
    proc, names0, sel = case['proc'], case['names'], case['sel']
    classes = ['proc:' + proc, 'sel:' + ('none' if sel is None else type(sel).__name__), 'prelude:duplicate']
    pkg = build_pkg(names0)

    def pre():
        return [dataflows.duplicate(names0[0], names0[0] + '_copy', names0[0] + '_copy.csv',
                                    duplicate_to_end=bool(case.get('to_end')))]
    try:
        ref_desc, ref_rows = run(pre(), pkg)
        names = [r['name'] for r in ref_desc['resources']]
        try:
            idxs = select(sel, names)
        except (IndexError, re.error):
            return Info(rejected=True, classes=classes + ['out-of-domain-selector'])
        if proc == 'set_type' and not idxs:
            return Info(rejected=True, classes=classes + ['set_type-nothing-to-do'])
        out_desc, out = run(pre() + [build_step(proc, sel, [], None, case.get('regex', True))], pkg)
        sub_desc = {'profile': 'data-package', 'resources': [copy.deepcopy(ref_desc['resources'][i]) for i in idxs]}
        if idxs:
            sub_d, sub_out = run_steps([build_step(proc, None, [], None, case.get('regex', True))], sub_desc,
                                       [ref_rows[i] for i in idxs])
        else:
            sub_d, sub_out = {'resources': []}, []
    except Violation:
        raise
    except Exception as e:
        raise unexpected(e, 'duplicate + ' + proc)
    if [r['name'] for r in out_desc['resources']] != names or len(out) != len(names):
        raise Violation('%s:resource-list' % proc, {'got': [r['name'] for r in out_desc['resources']], 'expected': names})
    for i, nm in enumerate(names):
        d, rows = out_desc['resources'][i], out[i]
        if i not in idxs:
            if d != ref_desc['resources'][i]:
                raise Violation('%s:unselected-descriptor-changed' % proc, {'resource': nm, 'selector': sel, 'after': 'duplicate'})
            if rows != ref_rows[i]:
                raise Violation('%s:unselected-rows-changed' % proc, {'resource': nm, 'selector': sel, 'after': 'duplicate'})
        else:
            j = idxs.index(i)
            if d != sub_d['resources'][j]:
                raise Violation('%s:selected-descriptor-differs-from-unrestricted-run' % proc,
                                {'resource': nm, 'selector': sel, 'after': 'duplicate'})
            if rows != sub_out[j]:
                raise Violation('%s:selected-rows-differ-from-unrestricted-run' % proc, {'resource': nm, 'selector': sel})
    return Info(nontrivial=0 < len(idxs) < len(names), classes=classes,
                key=json.dumps([proc, sel, names0, 'duplicate', case.get('regex'), bool(case.get('to_end'))]))


def check(case, ctx):
    if case.get('prelude') == 'duplicate':
        return check_after_duplicate(case, ctx)
    proc, names, sel = case['proc'], case['names'], case['sel']
    classes = ['proc:' + proc, 'sel:' + ('none' if sel is None else type(sel).__name__)]
    try:
        idxs = select(sel, names)
    except (IndexError, re.error):
        return Info(rejected=True, classes=classes + ['out-of-domain-selector'])
    n = len(names)
    prefixy = any(a != b and b.startswith(a) for a in names for b in names)
    nontrivial = (0 < len(idxs) < n) or prefixy
    pkg = build_pkg(names, bad_rows=(proc == 'validate'))
    sub = [pkg[i] for i in idxs]
    capture = []
    try:
        if proc in ('load_package', 'load_tuple'):
            base = [{'name': 'pre', 'fields': [{'name': 'q', 'type': 'integer'}], 'rows': [{'q': 1}]}]
            if proc == 'load_package':
                dp = write_package(pkg, ctx.tmpdir())
                sel_obj = copy.deepcopy(sel)
                step = dataflows.load(dp, resources=sel_obj)
            else:
                if case.get('seq_iters'):
                    # iterators that all read from ONE underlying stream (what datastream().res_iter of a streaming
                    # source gives): an unselected resource has to be skipped over, not just ignored
                    from vlib.kernel import feed
                    its = (rw.it for rw in feed(gen.descriptor_of(pkg), gen.tables_of(pkg), sequential=True).res_iter)
                else:
                    its = [iter(copy.deepcopy(r['rows'])) for r in pkg]
                sel_obj = copy.deepcopy(sel)
                step = dataflows.load((gen.descriptor_of(pkg), its), resources=sel_obj)
            out_desc, out = run([step], base)
            if sel_obj != sel:
                raise Violation('%s:selector-argument-mutated' % proc, {'before': sel, 'after': sel_obj})
            got_names = [r['name'] for r in out_desc['resources']]
            exp_names = ['pre'] + [names[i] for i in idxs]
            if got_names != exp_names or len(out) != len(exp_names):
                raise Violation('%s:selected-resources' % proc, {'got': got_names, 'expected': exp_names})
            for j, i in enumerate(idxs):
                if not rows_eq(out[j + 1], pkg[i]['rows']):
                    raise Violation('%s:rows' % proc, {'resource': names[i], 'diff': first_diff(out[j + 1], pkg[i]['rows'])})
            return Info(nontrivial=nontrivial, classes=classes)
        if proc == 'concatenate':
            if not idxs or idxs != list(range(idxs[0], idxs[-1] + 1)):
                return Info(rejected=True, classes=classes + ['concat-precondition'])
        if proc == 'set_type' and not idxs:
            try:
                run([build_step(proc, sel, capture)], pkg)
            except Exception as e:
                if isinstance(root_cause(e), AssertionError):
                    return Info(rejected=True, classes=classes + ['set_type-nothing-to-do'])
                raise
            raise Violation('set_type:empty-selection-accepted', {})
        sched_ = proc == 'parallelize'
        pre = case.get('prelude')
        if pre:
            classes.append('prelude:' + pre)
        # (seq: all resources are read from ONE underlying stream, as after a checkpoint / unstream)
        seq_ = bool(case.get('seq_iters')) and not sched_
        if seq_:
            classes.append('sequential-source')
        if case.get('regex') is False:
            classes.append('regex=False')
        sel_obj = copy.deepcopy(sel)
        run_pkg, drop = pkg, []
        if case.get('upstream_drop') and len(names) >= 2 and not pre and not sched_:
            # upstream of the step under test a resource in the MIDDLE of the package is deleted, and all resources are
            # read from one stream: a step that asks for the next resource before it has passed the current one on makes
            # the deleting step skip over rows that were not read yet
            zz = {'name': 'zz-mid', 'fields': copy.deepcopy(FIELDS), 'rows': make_rows('zz-mid', 7), 'pk': ['id']}
            run_pkg = pkg[:1] + [zz] + pkg[1:]
            drop = [dataflows.delete_resource(['zz-mid'])]
            seq_ = True
            classes.append('behind-a-resource-deleted-in-the-middle')
        out_desc, out = run(drop + build_prelude(pre) +
                            [build_step(proc, sel_obj, capture, pre, case.get('regex', True), keep_object=True)],
                            run_pkg, seq=seq_, scheduled=sched_)
        if sel_obj != sel:
            # the caller's selector object is the caller's: a list shared between several steps keeps its meaning
            raise Violation('%s:selector-argument-mutated' % proc, {'before': sel, 'after': sel_obj})
        if drop:
            ref_desc, ref_rows = run([dataflows.delete_resource(['zz-mid'])], run_pkg, seq=True)
        elif pre:
            # reference for "passes through unchanged": the same pipeline without the step under test
            ref_desc, ref_rows = run(build_prelude(pre), pkg)
        else:
            ref_desc, ref_rows = passthrough_desc(gen.descriptor_of(pkg)), [r['rows'] for r in pkg]
        if sub:
            sub_desc, sub_out = run(build_prelude(pre) + [build_step(proc, None, [], pre, case.get('regex', True))], sub,
                                    scheduled=sched_)
        else:
            sub_desc, sub_out = {'resources': []}, []
    except Violation:
        raise
    except Exception as e:
        raise unexpected(e, proc)
    by_name = {r['name']: (r, rows) for r, rows in zip(out_desc['resources'], out)}
    if len(out) != len(out_desc['resources']):
        raise Violation('%s:streams-vs-descriptors' % proc, {'streams': len(out), 'descriptors': len(out_desc['resources'])})
    if proc == 'delete_resource':
        exp_names = [nm for i, nm in enumerate(names) if i not in idxs]
    elif proc == 'concatenate':
        exp_names = names[:idxs[0]] + ['merged'] + names[idxs[-1] + 1:]
    else:
        exp_names = list(names)
    got_names = [r['name'] for r in out_desc['resources']]
    if got_names != exp_names:
        raise Violation('%s:resource-list' % proc, {'got': got_names, 'expected': exp_names, 'selector': sel})
    # unselected resources: identical descriptor and rows
    for i, nm in enumerate(names):
        if i in idxs:
            continue
        d, rows = by_name[nm]
        if d != ref_desc['resources'][i]:
            raise Violation('%s:unselected-descriptor-changed' % proc, {'resource': nm, 'selector': sel})
        if rows != ref_rows[i] and not (proc == 'parallelize' and sorted(map(repr, rows)) == sorted(map(repr, ref_rows[i]))):
            raise Violation('%s:unselected-rows-changed' % proc, {'resource': nm, 'selector': sel,
                                                                  'diff': first_diff(rows, ref_rows[i])})
    # selected resources: same as the step with resources=None on the sub-package
    if proc == 'concatenate':
        d, rows = by_name['merged']
        sd, srows = sub_desc['resources'][0], sub_out[0]
        if d != sd or rows != srows:
            raise Violation('concatenate:selected-differs-from-unrestricted-run', {'selector': sel})
    elif proc != 'delete_resource':
        for j, i in enumerate(idxs):
            d, rows = by_name[names[i]]
            if d != sub_desc['resources'][j]:
                raise Violation('%s:selected-descriptor-differs-from-unrestricted-run' % proc,
                                {'resource': names[i], 'selector': sel})
            if rows != sub_out[j]:
                raise Violation('%s:selected-rows-differ-from-unrestricted-run' % proc,
                                {'resource': names[i], 'selector': sel, 'diff': first_diff(rows, sub_out[j])})
            # and the step really did something to the selected resource (guards against a vacuous check)
            if proc not in ('printer',) and d == ref_desc['resources'][i] and rows == ref_rows[i]:
                raise Violation('%s:selected-resource-untouched' % proc, {'resource': names[i], 'selector': sel})
    if proc == 'printer' and capture != [names[i] for i in idxs]:
        raise Violation('printer:printed-resources', {'got': capture, 'expected': [names[i] for i in idxs]})
    return Info(nontrivial=nontrivial, classes=classes, key=json.dumps([proc, sel, names, case.get('prelude'), case.get('regex'), bool(case.get('seq_iters')),
                                bool(case.get('upstream_drop'))]))
