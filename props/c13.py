"""C13 - load reproduces the source table faithfully.

Oracle: an independent csv.reader pass over the same file (harness-side, explicit dialect), plus a
policy model for limit / strip / strategies / header de-duplication."""
import os
import re
import csv
import copy
import decimal
import datetime

from hypothesis import strategies as st
import tableschema

from vlib import gen
from vlib.kernel import Violation, Info, unexpected, dataflows, root_cause, quiet, Flow, materialise, ProcessorError

PID = 'C13'
LEVEL = 'exploration'
RULE = ('cases = CSV files written by the harness (csv.writer, explicit dialect passed to load; a plain-alphanumeric class '
        'relies on sniffing) with 1-6 columns, 0-40 rows (sparse: 1001-1100 rows with an offending cell beyond the 1000-row '
        'inference sample), cells with quotes / delimiters / newlines / unicode / numeric-looking / empty text, duplicate '
        'headers (same or different case, colliding with the de-duplication suffix) x infer_strategy x cast_strategy x '
        'on_error x strip x limit_rows x name x de-duplication flags; non-trivial: a cell needing quoting | a duplicate '
        'header | a non-default strategy/limit; distinct by case hash. (Package / tuple sources x selectors: see C10, C16.)')
ASSUMPTIONS = [
    'limit_rows with on_error=drop: both readings (limit then drop / drop then limit) are accepted - undocumented',
    'cells containing a carriage return are excluded from generation (known finding: tabulator\'s text loader '
    'normalises CR / CRLF inside quoted cells to LF); the finding itself is re-checked from replays/C13/crlf-in-cell.json',
    'the encoding (UTF-8, UTF-8 with BOM, UTF-16, Latin-1) is passed explicitly (chardet guessing is not under test) except for the ASCII class',
    'all data lines have as many cells as the header; headers are non-blank without edge whitespace',
    'with strip=True a cell with ASCII edge whitespace may come back stripped of all edge whitespace (str.strip)',
    'cast_strategy=schema: the reference parse of a cell is tableschema.Field.cast_value with the *emitted* field descriptor',
]
BUDGET = {'quick': dict(examples=3200, shards=16, seconds=70),
          'thorough': dict(examples=100000, shards=16, seconds=1200)}

HEADERS = ['a', 'b', 'A', 'a (1)', 'a (2)', 'col', 'x y', 'é', 'a,b', 'q"t', 'B', 'a-1', 'n']
CELLS_HARD = ['', 'x', '1', '-2', '1.5', '007', 'true', '2020-01-31', 'a,b', 'a;b', 'say "hi"', 'line\nbreak',
              "it's", 'é', '日本', '\U0001F600', ' pad', 'pad ', '\tt', 'a|b', '1e3', 'NaN', 'null', '[1,2]', '{"a":1}',
              ' ', 'x\xa0', '"', '""', ',', 'a\tb', 'a  b', '  ', 'x \n y']
CELLS_PLAIN = ['x', 'y1', '12', 'abc', '7', 'Z9', '100', 'hello']
ASCII_WS = ' \t\n\r'


@st.composite
def small_case(draw):
    ncol = draw(st.integers(1, 6))
    plain = draw(st.integers(0, 5)) == 0
    dup = (not plain) and draw(st.integers(0, 3)) == 0
    if dup:
        headers = draw(st.lists(st.sampled_from(['a', 'A', 'a (1)', 'A (1)', 'a (2)', 'A (2)', 'b', 'B', 'a-1',
                                                 'growth %', 'growth %', '100%d', '%s', '%%']), min_size=ncol, max_size=ncol))
    else:
        headers = draw(st.lists(st.sampled_from(['c1', 'c2', 'c3', 'name', 'id', 'val'] if plain else HEADERS),
                                min_size=ncol, max_size=ncol, unique=True))
    nrows = draw(st.integers(0, 40 if draw(st.integers(0, 4)) == 0 else 6))
    pool = CELLS_PLAIN if plain else CELLS_HARD
    colkind = [draw(st.sampled_from(['mixed', 'int', 'mixed'])) for _ in range(ncol)]
    rows = []
    for _ in range(nrows):
        row = []
        for k in colkind:
            if k == 'int' and not plain:
                row.append(draw(st.sampled_from(['1', '22', '-3', '0', '', ' 7', '8 ', ' 9 '])))
            else:
                row.append(draw(st.sampled_from(pool)))
        rows.append(row)
    dialect = {'delimiter': ',', 'lineterminator': '\r\n'} if plain else \
        {'delimiter': draw(st.sampled_from([',', ';', '\t', '|'])), 'lineterminator': draw(st.sampled_from(['\r\n', '\n']))}
    c = {'size': 'small', 'plain': plain, 'headers': headers, 'rows': rows, 'dialect': dialect,
         'strip': draw(st.sampled_from([True, False, None])),
         'limit': draw(st.sampled_from([None, None, 1, 2, 5, 100])),
         'infer': draw(st.sampled_from([None, 'full', 'strings', 'pytypes'])),
         'cast': draw(st.sampled_from([None, 'nothing', 'strings', 'schema'])),
         'on_error': draw(st.sampled_from(['raise', 'drop', 'ignore', 'clear'])),
         'name': draw(st.sampled_from([None, 'given-name'])),
         'dedup': draw(st.booleans()) if dup else draw(st.sampled_from([False, False, True])),
         'dedup_cs': draw(st.booleans()), 'dedup_fmt': draw(st.sampled_from([None, None, '_%s', ' (%s)']))}
    if not plain and not dup and 'int' in colkind and draw(st.integers(0, 3)) == 0:
        # schema-level missing values of the caller's choosing ('n/a' reads as null) on a column declared integer
        ci = colkind.index('int')
        for r_ in rows:
            if draw(st.integers(0, 2)) == 0:
                r_[ci] = 'n/a'
        c['mv'] = headers[ci]
        c['cast'] = 'schema'
        c['infer'] = None            # (the column's type is the caller's explicit choice)
    if not plain and ncol >= 2 and draw(st.integers(0, 4)) == 0:
        # title lines above the header line, whose position is given explicitly (headers=k+1)
        c['titles'] = draw(st.integers(0, 2))
    if not plain:
        # the file's encoding is passed to load explicitly (BOM-carrying and single-byte encodings included)
        enc = draw(st.sampled_from(['utf-8', 'utf-8', 'utf-8', 'utf-8-sig', 'utf-16', 'latin-1']))
        try:
            '\n'.join(headers + [x for r in rows for x in r]).encode(enc)
        except UnicodeEncodeError:
            enc = 'utf-8'
        c['encoding'] = enc
    return c


@st.composite
def big_case(draw):
    c = {'size': 'big', 'n': draw(st.integers(1001, 1100)), 'bad_at': draw(st.integers(1001, 1100)),
         'on_error': draw(st.sampled_from(['raise', 'drop', 'ignore', 'clear'])),
         'limit': draw(st.sampled_from([None, 1000, 1001, 5000]))}
    if c['limit'] in (1000, 1001) and draw(st.booleans()):
        c['bad_at'] = c['limit'] + 1          # the first row that is NOT asked for is the offending one
    return c


@st.composite
def select_case(draw):
    from props import c10
    n = draw(st.integers(1, 4))
    names = draw(st.lists(st.sampled_from(gen.RES_NAMES), min_size=n, max_size=n, unique=True))
    sel = draw(st.sampled_from(c10.selector_forms(names) + ['a.b', 'a.*b', '[ab].*', 'res_1.?', 'a|ab|abc']))
    return {'size': 'select', 'proc': draw(st.sampled_from(['load_package', 'load_tuple'])), 'names': names, 'sel': sel,
            'limit': draw(st.sampled_from([None, None, 1, 2, 4])), 'seq_iters': draw(st.booleans())}


@st.composite
def native_case(draw):
    """A (descriptor, iterators) source holding native values of mixed classes, loaded with the 'strings' cast strategy."""
    ncol = draw(st.integers(1, 3))
    pool = ['a', '', 5, 0, 2.5, True, False, None, decimal.Decimal('1.50'), datetime.date(2020, 2, 29), [1, 'x'], {'k': 1}]
    rows = [[draw(st.sampled_from(pool)) for _ in range(ncol)] for _ in range(draw(st.integers(1, 8)))]
    return {'size': 'native', 'ncol': ncol, 'rows': rows}


def check_native(case, ctx):
    names = ['c%d' % i for i in range(case['ncol'])]
    desc = gen.descriptor_of([{'name': 'nat', 'fields': [{'name': n, 'type': 'any'} for n in names], 'rows': []}])
    rows = [dict(zip(names, r)) for r in case['rows']]
    try:
        with quiet():
            res, dp_, _ = Flow(dataflows.load((desc, [iter(copy.deepcopy(rows))]), strip=False,
                                              cast_strategy=dataflows.load.CAST_TO_STRINGS)).results(on_error=None)
    except Exception as e:
        raise unexpected(e, 'load of native values with the strings strategy')
    if len(res) != 1 or len(res[0]) != len(rows):
        raise Violation('native-strings:row-count', {'got': [len(t) for t in res], 'expected': len(rows)})
    for g, e in zip(res[0], rows):
        for k in names:
            if not isinstance(g.get(k), str):
                raise Violation('strings-strategy-yields-non-string', {'field': k, 'got': g.get(k), 'source': e[k]})
            if g[k] != (e[k] if isinstance(e[k], str) else str(e[k])):
                raise Violation('native-strings:value', {'field': k, 'got': g[k], 'source': e[k]})
    mixed = any(len({type(r[i]).__name__ for r in case['rows']}) > 1 for i in range(case['ncol']))
    return Info(nontrivial=mixed, classes=['native-values:strings-strategy'])


@st.composite
def _mix(draw, tier):
    if gen.rare(draw, 60):
        return draw(native_case())
    if gen.rare(draw, 40 if tier == 'thorough' else 15):
        return draw(big_case())
    if gen.rare(draw, 120):
        return draw(select_case())
    return draw(small_case())


def cases(tier):
    return _mix(tier)


def expand_big(c):
    rows = [[str(i), 'r%d' % i, '%d.5' % (i % 1500), '2020-01-%02d' % (i % 28 + 1)] for i in range(c['n'])]
    bad = min(c['bad_at'], c['n']) - 1
    rows[bad][0] = 'oops'
    return {'size': 'big', 'plain': False, 'headers': ['num', 'txt', 'amount', 'day'], 'rows': rows,
            'dialect': {'delimiter': ',', 'lineterminator': '\r\n'}, 'strip': None, 'limit': c['limit'],
            'infer': None, 'cast': 'schema', 'on_error': c['on_error'], 'name': None, 'dedup': False,
            'dedup_cs': True, 'dedup_fmt': None, 'bad_index': bad}


PYTYPES = {'string': str, 'integer': int, 'number': (decimal.Decimal, float, int), 'boolean': bool,
           'date': datetime.date, 'datetime': datetime.datetime, 'time': datetime.time, 'year': int,
           'array': (list, tuple), 'object': dict, 'any': object, 'duration': object, 'yearmonth': object,
           'geopoint': object, 'geojson': object}


def strip_ok(got, v):
    """strip=True: what may come back for file text v."""
    if v and (v[0] in ASCII_WS or v[-1] in ASCII_WS):
        return got in (v.strip(), v.strip(ASCII_WS))
    if v != v.strip():
        return got in (v, v.strip())
    return got == v


def check(case, ctx):
    if case['size'] == 'native':
        return check_native(case, ctx)
    if case['size'] == 'select':
        # package / (descriptor, iterators) sources: exactly the requested resources are loaded
        from props import c10
        if case.get('limit'):
            return check_select_limit(case, ctx)
        info = c10.check(case, ctx)
        info.classes = ['select:' + case['proc']] + [x for x in info.classes if x.startswith('sel:')]
        return info
    c = case if case['size'] == 'small' else expand_big(case)
    classes = [c['size'], 'infer:%s' % c['infer'], 'cast:%s' % c['cast']]
    d = ctx.tmpdir()
    path = os.path.join(d, 'table.csv')
    enc = c.get('encoding', 'utf-8')
    with open(path, 'w', newline='', encoding=enc) as f:
        w = csv.writer(f, delimiter=c['dialect']['delimiter'], lineterminator=c['dialect']['lineterminator'],
                       quotechar='"', doublequote=True, quoting=csv.QUOTE_MINIMAL)
        for t in range(c.get('titles') or 0):
            w.writerow(['Report %d' % t] if t == 0 else ['generated', 'by the harness'][:max(1, len(c['headers']) - 1)])
        w.writerow(c['headers'])
        w.writerows(c['rows'])
    # independent pass over the same file
    with open(path, newline='', encoding=enc) as f:
        ref = list(csv.reader(f, delimiter=c['dialect']['delimiter'], quotechar='"', doublequote=True))
    nt = c.get('titles') or 0
    ref_headers, ref_rows = ref[nt], ref[nt + 1:]
    assert ref_headers == c['headers'] and ref_rows == c['rows'], 'harness: csv writer/reader disagree'
    kw = {}
    if not c['plain']:
        kw.update(delimiter=c['dialect']['delimiter'], quotechar='"', doublequote=True, skipinitialspace=False,
                  lineterminator=c['dialect']['lineterminator'], encoding=enc)
        if enc != 'utf-8':
            classes.append('encoding:' + enc)
    if c.get('titles') is not None:
        kw['headers'] = nt + 1
        classes.append('explicit-header-line:%d' % (nt + 1))
    if c.get('mv'):
        kw['override_schema'] = {'missingValues': ['', 'n/a']}
        kw['override_fields'] = {c['mv']: {'type': 'integer'}}
        classes.append('caller-defined-missing-values')
    if c['strip'] is not None:
        kw['strip'] = c['strip']
    if c['limit'] is not None:
        kw['limit_rows'] = c['limit']
    L = dataflows.load
    if c['infer'] is not None:
        kw['infer_strategy'] = {'full': L.INFER_FULL, 'strings': L.INFER_STRINGS, 'pytypes': L.INFER_PYTHON_TYPES}[c['infer']]
    if c['cast'] is not None:
        kw['cast_strategy'] = {'nothing': L.CAST_DO_NOTHING, 'strings': L.CAST_TO_STRINGS, 'schema': L.CAST_WITH_SCHEMA}[c['cast']]
        if c['cast'] == 'schema':
            kw['on_error'] = {'raise': L.ERRORS_RAISE, 'drop': L.ERRORS_DROP, 'ignore': L.ERRORS_IGNORE,
                              'clear': L.ERRORS_CLEAR}[c['on_error']]
    if c['name']:
        kw['name'] = c['name']
    if c['dedup']:
        kw['deduplicate_headers'] = True
    if not c['dedup_cs']:
        kw['deduplicate_headers_case_sensitive'] = False
    if c['dedup_fmt']:
        kw['deduplicate_headers_format'] = c['dedup_fmt']
    keyf = (lambda h: h) if c['dedup_cs'] else (lambda h: h.lower())
    has_dup = len(set(map(keyf, ref_headers))) != len(ref_headers)
    if has_dup:
        classes.append('dup-headers')
    strip = True if c['strip'] is None else c['strip']
    exc = None
    try:
        with quiet():
            res, dp, _ = Flow(dataflows.load(path, **kw)).results(on_error=None)
        out_desc = dp.descriptor
    except Exception as e:
        exc = e
    if has_dup and not c['dedup']:
        if exc is None:
            raise Violation('duplicate-headers-accepted-without-flag', {'headers': ref_headers})
        rc = root_cause(exc)
        if 'uplicate' not in str(rc):
            raise unexpected(exc, 'load')
        return Info(rejected=True, nontrivial=True, classes=classes + ['rejected:duplicate-headers'])
    # expected effect of cast_strategy=schema on offending rows is decided after we know the emitted schema
    if exc is not None:
        rc = root_cause(exc)
        if c['cast'] == 'schema' and c['on_error'] == 'raise' and isinstance(rc, dataflows.ValidationError):
            raised = rc
        else:
            raise unexpected(exc, 'load')
    else:
        raised = None
    if raised is None:
        if len(res) != 1 or len(out_desc['resources']) != 1:
            raise Violation('resource-count', {'streams': len(res)})
        rd = out_desc['resources'][0]
        exp_name = c['name'] or 'table'
        if rd['name'] != exp_name:
            raise Violation('resource-name', {'got': rd['name'], 'expected': exp_name})
        fields = rd['schema']['fields']
        names = [f['name'] for f in fields]
    else:
        fields = None
        names = None
    # ---- header handling
    if names is not None:
        if len(names) != len(ref_headers):
            raise Violation('header:field-count', {'got': names, 'file': ref_headers})
        if not has_dup:
            if names != ref_headers:
                raise Violation('header:names', {'got': names, 'file': ref_headers})
        else:
            if len(set(map(keyf, names))) != len(names):
                raise Violation('header:dedup-produces-duplicates', {'got': names, 'file': ref_headers,
                                                                    'case_sensitive': c['dedup_cs']})
            fmt = c['dedup_fmt'] or ' (%s)'
            pat = re.escape(fmt).replace(re.escape('%s'), r'\d+')
            for got, orig in zip(names, ref_headers):
                if got != orig and not re.fullmatch(re.escape(orig) + pat, got):
                    raise Violation('header:dedup-name-shape', {'got': got, 'original': orig})
    # ---- rows
    limit = c['limit']
    src_rows = ref_rows if not limit else ref_rows[:limit]
    if raised is not None:
        # raise policy: there must really be an offending cell at that index within the limit
        idx = raised.index
        if idx is None or idx >= len(src_rows):
            raise Violation('raise:index-out-of-range', {'index': idx, 'rows': len(src_rows)})
        if c['size'] == 'big' and idx != c['bad_index']:
            raise Violation('raise:wrong-index', {'got': idx, 'expected': c['bad_index']})
        return Info(nontrivial=True, classes=classes + ['raised'])
    got_rows = res[0]
    schema = tableschema.Schema({'fields': fields, 'missingValues': rd['schema'].get('missingValues', [''])})
    sfields = schema.fields
    exp_rows = []
    for i, r in enumerate(src_rows):
        cells = list(r)
        if c['cast'] == 'schema':
            row, keep = {}, True
            for f, v in zip(sfields, cells):
                try:
                    row[f.name] = f.cast_value(v)
                except tableschema.exceptions.CastError:
                    if c['on_error'] == 'drop':
                        keep = False
                        row[f.name] = v
                    elif c['on_error'] == 'ignore':
                        row[f.name] = v
                    elif c['on_error'] == 'clear':
                        row[f.name] = None
                    else:
                        raise Violation('raise:run-completed-despite-invalid-value', {'index': i, 'cell': v, 'field': f.name})
            if keep:
                exp_rows.append(('cast', row))
        else:
            exp_rows.append(('text', dict(zip(names, cells))))
    if len(got_rows) != len(exp_rows) and c['cast'] == 'schema' and c['on_error'] == 'drop' and limit:
        # limit_rows x on_error=drop: the docs do not say whether dropped rows count towards the limit;
        # the other reading (drop first, then take n) is accepted as well
        alt = []
        for r in ref_rows:
            try:
                alt.append(('cast', {f.name: f.cast_value(v) for f, v in zip(sfields, r)}))
            except tableschema.exceptions.CastError:
                continue
            if len(alt) >= limit:
                break
        if len(alt) == len(got_rows):
            exp_rows = alt
    if len(got_rows) != len(exp_rows):
        raise Violation('row-count', {'got': len(got_rows), 'expected': len(exp_rows), 'limit': limit,
                                      'file_rows': len(ref_rows)})
    for g, (kind, e) in zip(got_rows, exp_rows):
        if list(g.keys()) != names and set(g.keys()) != set(names):
            raise Violation('row-keys', {'got': list(g.keys()), 'expected': names})
        for k in names:
            gv, ev = g[k], e[k]
            if kind == 'text' or isinstance(ev, str):
                if not isinstance(gv, str):
                    if c['cast'] == 'strings' or c['infer'] == 'strings':
                        raise Violation('strings-strategy-yields-non-string', {'field': k, 'got': gv})
                    raise Violation('cell-not-text', {'field': k, 'got': gv, 'file': ev})
                ok = strip_ok(gv, ev) if strip else gv == ev
                if not ok:
                    lf = ev.replace('\r\n', '\n').replace('\r', '\n')
                    if '\r' in ev and (strip_ok(gv, lf) if strip else gv == lf):
                        raise Violation('cell-text:cr-in-cell-normalised-to-lf', {'field': k, 'got': gv, 'file': ev})
                    raise Violation('cell-text' + (':strip' if strip else ''), {'field': k, 'got': gv, 'file': ev})
            else:
                if not (type(gv) is type(ev) and (gv == ev or (gv != gv and ev != ev))):
                    raise Violation('cast-value', {'field': k, 'got': gv, 'expected': ev})
    if c['cast'] == 'schema':
        for g in got_rows:
            for f in fields:
                v = g[f['name']]
                if v is not None and not isinstance(v, PYTYPES.get(f['type'], object)) and \
                        not (c['on_error'] == 'ignore' and isinstance(v, str)):
                    raise Violation('cast-value-type', {'field': f['name'], 'type': f['type'], 'got': v})
    if c['infer'] == 'strings' and any(f['type'] != 'string' for f in fields):
        raise Violation('infer-strings-non-string-type', {'fields': fields})
    quoting = any(any(ch in cell for ch in '",;\n\r\t|') for r in c['rows'] for cell in r)
    nontrivial = quoting or has_dup or c['infer'] is not None or c['cast'] is not None or c['limit'] is not None
    if quoting:
        classes.append('needs-quoting')
    return Info(nontrivial=nontrivial, classes=classes)


def check_select_limit(case, ctx):
    """limit_rows on a multi-resource source (data package / (descriptor, iterators) pair): every selected
    resource yields its first n rows (or, reading the docs' "relevant only when not loading from a
    datapackage" literally, all of its rows) - the same way for every resource."""
    from props import c10
    names, sel, n = case['names'], case['sel'], case['limit']
    try:
        idxs = c10.select(sel, names)
    except (IndexError, re.error):
        return Info(rejected=True, classes=['select:out-of-domain'])
    pkg = c10.build_pkg(names)
    try:
        if case['proc'] == 'load_package':
            dp = c10.write_package(pkg, ctx.tmpdir())
            step = dataflows.load(dp, resources=copy.deepcopy(sel), limit_rows=n)
        else:
            step = dataflows.load((gen.descriptor_of(pkg), [iter(copy.deepcopy(r['rows'])) for r in pkg]),
                                  resources=copy.deepcopy(sel), limit_rows=n)
        with quiet():
            res, dp_, _ = Flow(step).results(on_error=None)
    except Exception as e:
        raise unexpected(e, 'load with limit_rows')
    if len(res) != len(idxs):
        raise Violation('select-limit:resources', {'got': len(res), 'expected': len(idxs)})
    readings = set()
    for rows, i in zip(res, idxs):
        full = pkg[i]['rows']
        ids = [str(r['id']) for r in rows]
        if ids == [str(r['id']) for r in full[:n]] and len(full) > n:
            readings.add('first-n')
        elif ids == [str(r['id']) for r in full]:
            readings.add('all' if len(full) > n else 'both')
        else:
            raise Violation('select-limit:rows', {'resource': names[i], 'got': len(rows), 'limit': n, 'available': len(full)})
    if {'first-n', 'all'} <= readings:
        raise Violation('select-limit:inconsistent-across-resources', {'limit': n})
    return Info(nontrivial=len(idxs) >= 2, classes=['select-limit:' + case['proc']])
