#!/bin/sh
# usage: tools/mutate.sh <patch-file> <ID> [check args...]
# Applies <patch-file> to a scratch copy of /repo (outside /repo and /verif), runs the check
# against it via VERIF_REPO, removes the copy.  Expected result for a seeded mutant: exit 1.
P=$(readlink -f "$1"); ID=$2; shift 2
D=$(mktemp -d /var/tmp/dfmut-XXXXXX)
rsync -a --exclude .git --exclude out --exclude .checkpoints --exclude '*.egg-info' /repo/ "$D/"
( cd "$D" && patch -p1 -s < "$P" ) || { echo "PATCH-FAILED $P"; rm -rf "$D"; exit 3; }
cd "$(dirname "$0")/.."
VERIF_REPO="$D" ./check "$ID" --no-evidence "$@"
rc=$?
rm -rf "$D"
echo "mutant $(basename "$P") on $ID -> exit $rc"
exit $rc
