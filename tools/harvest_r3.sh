#!/bin/sh
# usage: tools/harvest_r3.sh <ID>...  - copies /tmp/wt${ROUND:-3}/<ID>/seed_out/mN into seeded/<ID>-r${ROUND:-3}mN and confirms each
cd "$(dirname "$0")/.."
for id in "$@"; do
  for n in 1 2 3; do
    src=/tmp/wt${ROUND:-3}/$id/seed_out/m$n
    [ -f "$src/patch.diff" ] || { echo "missing $src"; continue; }
    dst=seeded/$id-r${ROUND:-3}m$n
    mkdir -p "$dst"
    cp "$src/patch.diff" "$src/demo.py" "$src/meta.json" "$dst/"
    tools/confirm_seed.sh "$dst" | tail -1
  done
done
