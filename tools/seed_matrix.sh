#!/bin/sh
# usage: tools/seed_matrix.sh [seed-dir...]   (default: all of seeded/*)
# For every seeded mutant: apply to a scratch copy of /repo, run the quick check of the property it breaks
# (and nothing else), record exit code + first VIOLATION line in seeded/<id>/detect.json
cd "$(dirname "$0")/.."
[ $# -eq 0 ] && set -- seeded/*/
for d in "$@"; do
  d=${d%/}; n=$(basename "$d"); pid=${n%%-*}
  [ -f "$d/patch.diff" ] || continue
  out=$(tools/mutate.sh "$d/patch.diff" "$pid" 2>&1)
  rc=$(printf '%s\n' "$out" | sed -n 's/^mutant .* -> exit \([0-9]*\)$/\1/p' | tail -1)
  sig=$(printf '%s\n' "$out" | grep -m1 '^violation: signature=' | sed 's/^violation: signature=\([^ ]*\).*/\1/')
  printf '{"seed": "%s", "property": "%s", "check_exit": %s, "detected": %s, "signature": "%s", "repo_head": "%s"}\n' \
    "$n" "$pid" "${rc:-null}" "$([ "$rc" = 1 ] && echo true || echo false)" "$sig" "$(git -C /repo rev-parse --short HEAD)" > "$d/detect.json"
  cat "$d/detect.json"
done
