#!/bin/sh
# Rewrites evidence/<ID>.json for every registered check by running its quick command (one at a time, idle machine),
# then validates every evidence file against the schema.  usage: tools/regen_evidence.sh [seed]
cd "$(dirname "$0")/.."
seed=${1:-1}
for pid in $(/venv/bin/python -c "import json;print(' '.join(c['property_id'] for c in json.load(open('MANIFEST.json'))['checks']))"); do
  out=$(VERIF_SEED=$seed ./check $pid --tier quick 2>&1); rc=$?
  echo "$pid exit=$rc $(printf '%s\n' "$out" | grep -E '^C[0-9]+ tier' | tail -1 | cut -c1-140)"
done
/venv/bin/python - <<'PY'
import json, glob, jsonschema
sch = json.load(open('/root/.vp/EVIDENCE.schema.json'))
for f in sorted(glob.glob('evidence/*.json')):
    jsonschema.validate(json.load(open(f)), sch)
print('evidence files valid:', len(glob.glob('evidence/*.json')))
PY
