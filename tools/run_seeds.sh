#!/bin/sh
# usage: tools/run_seeds.sh <tier> <parallel> <seed>...   - every registered check at every seed, <parallel> at a time;
# prints one line per (seed, check); non-zero exits are followed by their VIOLATION / HARNESS lines.
cd "$(dirname "$0")/.."
tier=$1; par=$2; shift 2
ids=$(/venv/bin/python -c "import json;print(' '.join(c['property_id'] for c in json.load(open('MANIFEST.json'))['checks']))")
for seed in "$@"; do for pid in $ids; do echo "$seed $pid"; done; done | xargs -P "$par" -L 1 sh -c '
  out=$(VERIF_SEED=$0 ./check $1 --tier '"$tier"' --no-evidence 2>&1); rc=$?
  line=$(printf "%s\n" "$out" | grep -E "^C[0-9]+ tier" | tail -1 | cut -c1-150)
  if [ $rc -ne 0 ]; then extra=$(printf "%s\n" "$out" | grep -E "VIOLATION|violation:|HARNESS" | head -4 | cut -c1-600); fi
  printf "seed=%s %s exit=%s %s\n%s" "$0" "$1" "$rc" "$line" "${extra:+$extra
}"'
