#!/bin/sh
# runs the pinned baseline in a scratch copy of /repo's working tree (so out/ and .checkpoints do not pollute /repo)
D=$(mktemp -d /var/tmp/dftests-XXXXXX)
rsync -a --exclude .git /repo/ "$D/"
cd "$D" && /venv/bin/python -m pytest -q -p no:cacheprovider --timeout=900 --continue-on-collection-errors -x \
  --deselect tests/test_examples.py::test_example_3 --deselect tests/test_examples.py::test_example_4 \
  --deselect tests/test_examples.py::test_example_5 --deselect tests/test_cli.py::test_init_remote 2>&1 | tail -8
rc=$?
cd /; rm -rf "$D"
exit $rc
