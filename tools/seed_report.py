#!/venv/bin/python
"""Writes seeded/RESULTS.md from seeded/*/meta.json, confirm.json, detect.json."""
import os, json, glob
root = os.path.join(os.path.dirname(os.path.dirname(os.path.abspath(__file__))), 'seeded')
rows = []
for d in sorted(glob.glob(os.path.join(root, 'C*-*m[0-9]'))):
    n = os.path.basename(d)
    def load(f):
        try:
            return json.load(open(os.path.join(d, f)))
        except Exception:
            return {}
    meta, conf, det = load('meta.json'), load('confirm.json'), load('detect.json')
    confirmed = conf.get('applies') and conf.get('demo_exit_pristine') == 0 and conf.get('demo_exit_mutant') not in (0, None) and conf.get('tests_exit') == 0
    rows.append((n, meta.get('property', n.split('-')[0]), 'yes' if confirmed else 'NO (%s)' % json.dumps(conf)[:80],
                 'caught' if det.get('detected') else ('MISSED' if det else 'not run'), det.get('signature', ''),
                 (meta.get('summary') or '').replace('\n', ' ').replace('|', '/')[:160]))
with open(os.path.join(root, 'RESULTS.md'), 'w') as f:
    f.write('# Seeded changes: confirmation and detection\n\n')
    f.write('Each row: a change to datahq/dataflows written by an independent sub-agent that saw only the property text.\n')
    f.write('"confirmed" = I re-ran, in a scratch copy of /repo: demo passes without the patch, fails with it, the 120 pinned tests still pass.\n')
    f.write('"check" = result of `tools/mutate.sh seeded/<id>/patch.diff <property>` (quick tier, seed 1).\n\n')
    f.write('| seed | property | confirmed | check | violation signature | what the change does |\n|---|---|---|---|---|---|\n')
    for r in rows:
        f.write('| %s | %s | %s | %s | `%s` | %s |\n' % r)
    n = len(rows); c = sum(1 for r in rows if r[3] == 'caught')
    f.write('\n%d seeds, %d caught by the property\'s own quick check.\n' % (n, c))
    notes = os.path.join(root, 'NOTES.md')
    if os.path.exists(notes):
        f.write('\n' + open(notes).read())
print('written', len(rows))
