#!/bin/sh
# Line coverage of /repo/dataflows achieved by the quick tier of all checks (diagnostic only; not part of any check).
# usage: tools/coverage_all.sh [outdir]   -> <outdir>/report.txt
OUT=${1:-/var/tmp/dfcov}
rm -rf "$OUT"; mkdir -p "$OUT"
cat > "$OUT/.coveragerc" <<EOC
[run]
concurrency = multiprocessing
parallel = true
source = /repo/dataflows
data_file = $OUT/.coverage
EOC
cd "$(dirname "$0")/.."
for pid in $(/venv/bin/python -c "import json;print(' '.join(c['property_id'] for c in json.load(open('MANIFEST.json'))['checks']))"); do
  PYTHONHASHSEED=0 PYTHONDONTWRITEBYTECODE=1 timeout 900 /venv/bin/python -m coverage run --rcfile="$OUT/.coveragerc" -m vlib.run $pid --tier quick --no-evidence --seconds 200 2>&1 | grep -E "^C[0-9]+ tier" | cut -c1-100
done
cd "$OUT" && /venv/bin/python -m coverage combine --rcfile=.coveragerc >/dev/null 2>&1
/venv/bin/python -m coverage report --rcfile=.coveragerc -m > "$OUT/report.txt" 2>/dev/null
tail -1 "$OUT/report.txt"
