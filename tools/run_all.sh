#!/bin/sh
# usage: tools/run_all.sh [tier] [seed...]  - runs every registered check, prints one line per check
cd "$(dirname "$0")/.."
tier=${1:-quick}; shift
[ $# -eq 0 ] && set -- 1
for seed in "$@"; do
  for pid in $(/venv/bin/python -c "import json;print(' '.join(c['property_id'] for c in json.load(open('MANIFEST.json'))['checks']))"); do
    out=$(VERIF_SEED=$seed ./check $pid --tier $tier --no-evidence 2>&1); rc=$?
    echo "seed=$seed $pid exit=$rc $(printf '%s\n' "$out" | grep -E '^C[0-9]+ tier' | tail -1 | cut -c1-150)"
    [ $rc -ne 0 ] && printf '%s\n' "$out" | grep -E 'VIOLATION|violation:|HARNESS' | head -5
  done
done
