#!/venv/bin/python
"""Regenerates /verif/MANIFEST.json from the property modules present under props/.
Every property without a module is listed under not_applicable (reason: not built)."""
import os, sys, json, importlib
VERIF = os.path.dirname(os.path.dirname(os.path.abspath(__file__)))
sys.path.insert(0, VERIF)
os.chdir(VERIF)
props = [json.loads(l) for l in open('properties.jsonl')]
checks, na = [], []
for p in props:
    pid = p['id']
    path = os.path.join('props', pid.lower() + '.py')
    if not os.path.exists(path):
        na.append({'property_id': pid, 'reason': 'check not built yet (planned in DESIGN.md section 3); no claim is made'})
        continue
    src = open(path).read()
    ns = {}
    # read the declarative constants without importing the code under test
    import ast
    tree = ast.parse(src)
    for node in tree.body:
        if isinstance(node, ast.Assign) and len(node.targets) == 1 and isinstance(node.targets[0], ast.Name) \
                and node.targets[0].id in ('LEVEL', 'LEVEL_TEXT', 'LEVEL_NOTE', 'TECHNIQUE', 'RULE'):
            try:
                ns[node.targets[0].id] = ast.literal_eval(node.value)
            except Exception:
                pass
    checks.append({
        'property_id': pid,
        'quick_cmd': './check %s --tier quick' % pid,
        'thorough_cmd': './check %s --tier thorough' % pid,
        'evidence_file': 'evidence/%s.json' % pid,
        'replay_cmd_template': './check %s --replay {path}' % pid,
        'engine': 'vlib',
        'level_claimed': {
            'category': ns.get('LEVEL', 'exploration'),
            'text': ns.get('LEVEL_TEXT', 'generated-input search against an explicit oracle; holds on everything explored, no proof of absence'),
            'design_ref': 'DESIGN.md section 3, ' + pid,
        },
        'level_note': ns.get('LEVEL_NOTE', 'trusts: the harness reference model / decoder, Hypothesis generation, CPython; third-party libs (tableschema, datapackage, tabulator, kvfile) are part of the system under test unless stated'),
        'technique': ns.get('TECHNIQUE', 'property-based testing (Hypothesis) against a reference model'),
    })
m = {
    'version': 1,
    'setup_cmd': '/venv/bin/python -c "import hypothesis" 2>/dev/null || /venv/bin/pip install --no-index --find-links /opt/veriftools/wheels hypothesis',
    'hooks': {
        'guard': 'DATAFLOWS_VERIF',
        'enable': 'no source hooks are needed: checks import /repo/dataflows directly (pure Python) and interpose from the harness side; ./check exports DATAFLOWS_VERIF=1 for completeness',
        'baseline_off_cmd': 'cd /repo && /venv/bin/python -m pytest -ra -q -p no:cacheprovider --timeout=900 --continue-on-collection-errors',
        'source_commits': [],
        'add_only': True,
    },
    'engines': [{'name': 'vlib', 'path': 'vlib/run.py',
                 'serves_properties': [c['property_id'] for c in checks],
                 'kind_free_text': 'Hypothesis-driven property-based testing / fault enumeration runner with sharding, replay files, known-findings matching and evidence output'}],
    'checks': checks,
    'not_applicable': na,
    'notes': 'All checks: ./check <ID> --tier quick|thorough ; replay: ./check <ID> --replay <file>. VERIF_SEED selects the seed. New violations are written under failures/<ID>/ (untracked); committed regression inputs live under replays/<ID>/.',
}
json.dump(m, open('MANIFEST.json', 'w'), indent=1)
import jsonschema
jsonschema.validate(m, json.load(open('/root/.vp/MANIFEST.schema.json')))
print('MANIFEST ok: %d checks, %d not_applicable' % (len(checks), len(na)))
