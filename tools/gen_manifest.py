#!/venv/bin/python
"""Regenerates /verif/MANIFEST.json from the property modules present under props/.
Every property without a module is listed under not_applicable (reason: not built)."""
import os, sys, json, importlib
VERIF = os.path.dirname(os.path.dirname(os.path.abspath(__file__)))
sys.path.insert(0, VERIF)
os.chdir(VERIF)
TEXT = {
 'C01': ('metamorphic + reference', 'generated programs (2-8 links over the whole step catalogue, 5 callable forms) compared lazy vs step-by-step vs split vs nested (incl. empty sub-Flows) vs conditional-wrapped (truthy predicate values) vs results()/process()/datastream(); user callables re-applied in plain Python (incl. ones raising StopIteration); uninterpretable links (non-steps, iterables of non-rows) must raise', 'Hypothesis program generator; differential/metamorphic oracle + plain-Python reference for user callables'),
 'C02': ('validity predicate', 'generated pipelines of built-in steps over typed inputs; every emitted row checked against the emitted descriptor with the schema library\'s cast; unique resource and field names; descriptor validity; results() must not fail; checkpointed programs are run twice (the resumed run is held to the same standard)', 'Hypothesis program generator; validity predicate (tableschema cast, datapackage validity)'),
 'C03': ('round trip + independent decoder', 'generated typed packages x dump options; load() round trip and a harness-written decoder that uses only the written descriptor; counters on/off, force_format=False, >1000-row resources, later in-place edits, a second dumper in the flow, resources arriving with encoding / dialect of their own', 'Hypothesis; round-trip oracle + independent decoder'),
 'C05': ('differential + completeness', 'observer inserted at drawn positions of generated programs; downstream result compared with the run without it; persisted/reported content compared with the stream at its position using harness decoders', 'Hypothesis program generator; differential oracle + independent decoders'),
 'C06': ('history invariant', 'counting sources with provenance tags; look-ahead measured at every delivery (generator, sized iterable, load tuple with partial selection, sources, load() through a counting parser, SQL query with a counting function, unstream(file) through a counting file proxy); bounded by a constant and not growing with stream length; early-stop pipelines read at most K+constant rows unless a persisting observer sits in front of the early stop', 'Hypothesis program generator; invariant over the execution history (pull/delivery counters)'),
 'C09': ('recomputation', 'size / MD5 / row count recomputed from the written files (csv, json, xlsx) and compared with the written descriptor and process() stats; two dumps compared; dumping over an older dump, from another working directory', 'Hypothesis; recomputation oracle with independent decoder'),
 'C10': ('exhaustive product + differential', 'every selector-taking processor x every selector form x fixed packages enumerated completely, plus drawn packages; harness selector model; unselected == without the step, selected == unrestricted step on the sub-package; variants: regex=False, one-stream sources, a prelude step on all resources, behind duplicate, behind a resource deleted in the middle; the selector argument is not mutated', 'exhaustive enumeration of a finite configuration product + Hypothesis; selector reference model + differential oracle'),
 'C11': ('reference model', 'dict-of-lists join model written from the documentation; all 12 aggregators, 3 modes, key forms, wildcard, dedup mode; KVFile spill class', 'Hypothesis; reference model (bipartite matching for unordered parts)'),
 'C12': ('validity predicate + metamorphic', 'permutation, order under a reference key, stability, reverse == exact reverse, independence of batch size / cache spill', 'Hypothesis; validity predicate + metamorphic relations'),
 'C13': ('independent parse + policy model', 'harness-written CSV files re-read with csv.reader; header / strip / limit / strategy / on_error model; selector sub-check', 'Hypothesis; independent csv.reader oracle + policy model'),
 'C14': ('library cast + policy model', 'tableschema cast as the named reference, policy model for raise/drop/ignore/clear/custom handlers incl. call logs', 'Hypothesis; reference cast + policy model'),
 'C15': ('reference model', 'full-match pattern semantics, documented field order and operations', 'Hypothesis; reference model'),
 'C16': ('reference model + conservation', 'row-tag conservation and placement model for concatenate/duplicate/delete_resource/appends; sequential-source feed', 'Hypothesis; reference model + conservation invariant'),
 'C17': ('reference model', 'list-based models of filter_rows / deduplicate / unpivot', 'Hypothesis; reference model'),
 'C20': ('model-based histories', 'list-of-rows table model over generated dump histories into one SQLite file', 'Hypothesis-generated histories; reference table model'),
}
props = [json.loads(l) for l in open('properties.jsonl')]
checks, na = [], []
for p in props:
    pid = p['id']
    path = os.path.join('props', pid.lower() + '.py')
    if not os.path.exists(path):
        na.append({'property_id': pid, 'reason': 'check not built yet (planned in DESIGN.md section 3); no claim is made'})
        continue
    src = open(path).read()
    ns = {}
    # read the declarative constants without importing the code under test
    import ast
    tree = ast.parse(src)
    for node in tree.body:
        if isinstance(node, ast.Assign) and len(node.targets) == 1 and isinstance(node.targets[0], ast.Name) \
                and node.targets[0].id in ('LEVEL', 'LEVEL_TEXT', 'LEVEL_NOTE', 'TECHNIQUE', 'RULE'):
            try:
                ns[node.targets[0].id] = ast.literal_eval(node.value)
            except Exception:
                pass
    checks.append({
        'property_id': pid,
        'quick_cmd': './check %s --tier quick' % pid,
        'thorough_cmd': './check %s --tier thorough' % pid,
        'evidence_file': 'evidence/%s.json' % pid,
        'replay_cmd_template': './check %s --replay {path}' % pid,
        'engine': 'vlib',
        'level_claimed': {
            'category': ns.get('LEVEL', 'exploration'),
            'text': ns.get('LEVEL_TEXT', (TEXT[pid][1] + '; holds on everything explored, no proof of absence') if pid in TEXT else 'generated-input search against an explicit oracle; holds on everything explored, no proof of absence'),
            'design_ref': 'DESIGN.md section 3, ' + pid,
        },
        'level_note': ns.get('LEVEL_NOTE', 'trusts: the harness reference model / decoder, Hypothesis generation, CPython; third-party libs (tableschema, datapackage, tabulator, kvfile) are part of the system under test unless stated'),
        'technique': ns.get('TECHNIQUE', TEXT[pid][2] if pid in TEXT else 'property-based testing (Hypothesis) against a reference model'),
    })
m = {
    'version': 1,
    'setup_cmd': '/venv/bin/python -c "import hypothesis" 2>/dev/null || /venv/bin/pip install --no-index --find-links /opt/veriftools/wheels hypothesis',
    'hooks': {
        'guard': 'DATAFLOWS_VERIF',
        'enable': 'no source hooks are needed: checks import /repo/dataflows directly (pure Python) and interpose from the harness side; ./check exports DATAFLOWS_VERIF=1 for completeness',
        'baseline_off_cmd': 'cd /repo && /venv/bin/python -m pytest -ra -q -p no:cacheprovider --timeout=900 --continue-on-collection-errors',
        'source_commits': [],
        'add_only': True,
    },
    'engines': [{'name': 'vlib', 'path': 'vlib/run.py',
                 'serves_properties': [c['property_id'] for c in checks],
                 'kind_free_text': 'Hypothesis-driven property-based testing / fault enumeration runner with sharding, replay files, known-findings matching and evidence output'}],
    'checks': checks,
    'not_applicable': na,
    'notes': 'All checks: ./check <ID> --tier quick|thorough ; replay: ./check <ID> --replay <file>. VERIF_SEED selects the seed. New violations are written under failures/<ID>/ (untracked); committed regression inputs live under replays/<ID>/.',
}
json.dump(m, open('MANIFEST.json', 'w'), indent=1)
import jsonschema
jsonschema.validate(m, json.load(open('/root/.vp/MANIFEST.schema.json')))
print('MANIFEST ok: %d checks, %d not_applicable' % (len(checks), len(na)))
