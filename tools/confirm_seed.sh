#!/bin/sh
# usage: tools/confirm_seed.sh <seed-dir>   (dir holds patch.diff, demo.py, meta.json)
# Confirms in a scratch copy of /repo (current HEAD working tree): demo passes without the patch,
# fails with it, and the pinned test-suite still passes with it.  Writes <seed-dir>/confirm.json.
S=$(readlink -f "$1")
D=$(mktemp -d /var/tmp/dfseed-XXXXXX)
rsync -a --exclude .git --exclude out --exclude .checkpoints /repo/ "$D/"
cp "$S/demo.py" "$D/demo_seed.py"
cd "$D"
/venv/bin/python demo_seed.py >/dev/null 2>&1; pristine=$?
patch -p1 -s < "$S/patch.diff" || { echo "{\"applies\": false}" > "$S/confirm.json"; cd /; rm -rf "$D"; exit 3; }
timeout 600 /venv/bin/python demo_seed.py >/dev/null 2>&1; mutant=$?
/venv/bin/python -m pytest -q -p no:cacheprovider --timeout=900 --continue-on-collection-errors \
  --deselect tests/test_examples.py::test_example_3 --deselect tests/test_examples.py::test_example_4 \
  --deselect tests/test_examples.py::test_example_5 --deselect tests/test_cli.py::test_init_remote > "$D/pytest.log" 2>&1
tests=$?
summary=$(tail -1 "$D/pytest.log" | tr -d '"')
cd /; rm -rf "$D"
printf '{"applies": true, "demo_exit_pristine": %s, "demo_exit_mutant": %s, "tests_exit": %s, "tests_summary": "%s", "repo_head": "%s"}\n' \
  "$pristine" "$mutant" "$tests" "$summary" "$(git -C /repo rev-parse --short HEAD)" > "$S/confirm.json"
cat "$S/confirm.json"
