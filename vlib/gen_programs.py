"""Program generator: well-typed pipelines over (nearly) all built-in processors and a small library of
user callables with known semantics.  A program is a list of JSON step *specs*; `build(spec, env)` makes a
FRESH step object for every evaluation (dataflows steps are single-use and mutate their arguments).

Well-typedness is obtained by construction: after each drawn step the generator runs the real step on the
current package *with zero rows* to learn the resulting descriptor (names, fields, types); a draw that the
step itself rejects is redrawn.  (Only the descriptor is taken from the code under test here; no oracle
depends on it.)"""
import os
import csv
import copy
import functools

from hypothesis import strategies as st, assume

from vlib import gen
from vlib.kernel import dataflows, run_steps, mkdesc, quiet

IN_TYPES = ['string', 'integer', 'number', 'date', 'boolean']
FNAMES = ['a', 'b', 'ab', 'c_d', 'val', 'n1', 'n2', 'txt', 'A', 'é']

PROTECTED = set()

# ----------------------------------------------------------------------------- kinds
FIELD_KINDS = ['add_field', 'add_computed', 'delete_fields', 'select_fields', 'rename_fields', 'find_replace',
               'set_type', 'validate']
ROW_KINDS = ['filter_rows', 'set_pk_dedupe', 'sort_rows', 'unpivot']
RES_KINDS = ['concatenate', 'duplicate', 'delete_resource', 'join', 'update_resource', 'update_schema', 'update_package',
             'iterable', 'sources', 'load_csv']
OBSERVER_KINDS = ['printer', 'dump_to_path', 'dump_to_zip', 'stream_file', 'checkpoint', 'finalizer', 'update_stats']
USER_KINDS = ['row_fn', 'rows_fn', 'package_fn']
ALL_KINDS = FIELD_KINDS + ROW_KINDS + RES_KINDS + OBSERVER_KINDS + USER_KINDS
SHARERS = {'duplicate', 'join', 'concatenate', 'unpivot', 'sort_rows', 'dump_to_path', 'dump_to_zip', 'stream_file',
           'checkpoint', 'printer', 'set_pk_dedupe', 'rows_fn'}
MUTATORS = ['row_fn', 'add_field', 'add_computed', 'set_type', 'find_replace']
BUFFERING = {'sort_rows', 'join', 'duplicate', 'set_pk_dedupe'}   # not "row-wise streaming" (C06)


# file names given to stream(): endings that share characters with the '.active' suffix of the temporary name included
STREAM_FILE_NAMES = ['stream.ndjson', 'out.jsonl', 'capture', 'run1.state', 'latest.archive', 'data.native', 'x.active', 'a']


# ----------------------------------------------------------------------------- inputs
@st.composite
def input_resource(draw, name, sizes=(0, 1, 2, 3, 5), types=None):
    nf = draw(st.integers(1, 3))
    names = draw(st.lists(st.sampled_from(FNAMES), min_size=nf, max_size=nf, unique=True))
    # 'id' is unique and non-null, 'g' is a small non-unique non-null group key (duplicate join keys)
    flds = [{'name': 'id', 'type': 'integer'}, {'name': 'g', 'type': 'integer'}] + \
        [{'name': n, 'type': draw(st.sampled_from(types or IN_TYPES))} for n in names]
    k = draw(st.sampled_from(list(sizes)))
    if k <= 12:
        rows = draw(gen.rows_for(flds[2:], k, k, hard=False))
    else:
        proto = draw(gen.rows_for(flds[2:], 3, 3, hard=False))
        rows = [copy.deepcopy(proto[i % 3]) for i in range(k)]     # no nested value shared between rows
    for i, r in enumerate(rows):
        r['id'] = i + 1
        r['g'] = draw(st.integers(1, 3)) if k <= 12 else (i % 3) + 1
    # '' in a string field IS null under the schema's missingValues ['']: typed inputs use None, never ''
    rows = [dict([(f['name'], (None if r[f['name']] == '' else r[f['name']])) for f in flds]) for r in rows]
    return {'name': name, 'fields': flds, 'rows': rows}


@st.composite
def input_package(draw, min_res=1, max_res=3, sizes=(0, 1, 2, 3, 5), types=None):
    n = draw(st.integers(min_res, max_res))
    # named like the automatic names of appended iterables (res_<n>), so that deletions leave gaps that later
    # appends may collide with
    return [draw(input_resource('res_%d' % (i + 1), sizes, types)) for i in range(n)]


# ----------------------------------------------------------------------------- user callables
class Holder:
    """bound-method / callable-object carrier"""

    def __init__(self, fn):
        self.fn = fn

    def method(self, row):
        return self.fn(row)


def _wrap_form(fn, form, param):
    """Present the one-argument function `fn` in the requested callable form; its parameter is named `param`."""
    if form == 'def':
        return fn
    if form == 'lambda':
        if param == 'row':
            return lambda row: fn(row)
        if param == 'rows':
            return lambda rows: fn(rows)
        return lambda package: fn(package)
    if form == 'partial':
        if param == 'row':
            def two(row, k):
                return fn(row)
            return functools.partial(two, k=1)
        if param == 'rows':
            def two_r(rows, k):
                return fn(rows)
            return functools.partial(two_r, k=1)

        def two_p(package, k):
            return fn(package)
        return functools.partial(two_p, k=1)
    if form == 'method':
        class H:
            pass
        if param == 'row':
            class H:  # noqa
                def m(self, row):
                    return fn(row)
        elif param == 'rows':
            class H:  # noqa
                def m(self, rows):
                    return fn(rows)
        else:
            class H:  # noqa
                def m(self, package):
                    return fn(package)
        return H().m
    if form == 'callable':
        if param == 'row':
            class C:
                def __call__(self, row):
                    return fn(row)
        elif param == 'rows':
            class C:  # noqa
                def __call__(self, rows):
                    return fn(rows)
        else:
            class C:  # noqa
                def __call__(self, package):
                    return fn(package)
        return C()
    raise AssertionError(form)


FORMS = ['def', 'lambda', 'partial', 'method', 'callable']


def user_row_fn(spec):
    f = spec['field']
    name = spec['fn']
    if name == 'inc_int':
        def row_fn(row):                       # in place, non-idempotent, returns None
            if isinstance(row.get(f), int) and not isinstance(row.get(f), bool):
                row[f] = row[f] + 1
    elif name == 'upper':
        def row_fn(row):                       # returns a NEW dict
            new = dict(row)
            if isinstance(new.get(f), str):
                new[f] = new[f].upper() + '^'
            return new
    elif name == 'append_nested':
        def row_fn(row):                       # edits a nested value in place
            if isinstance(row.get(f), list):
                row[f].append('+')
            elif isinstance(row.get(f), dict):
                row[f]['+'] = True
    elif name == 'nullify':
        def row_fn(row):
            row[f] = None
    elif name == 'stop_at':
        def row_fn(row):                       # the classic bug: next() on an exhausted iterator inside a row function
            if row.get('id') == spec['at']:
                next(iter(()))
    else:
        raise AssertionError(name)
    return row_fn


def user_rows_fn(spec):
    name = spec['fn']
    if name == 'drop_odd':
        def rows_fn(rows):
            for i, r in enumerate(rows):
                if i % 2 == 0:
                    yield r
    elif name == 'double':
        def rows_fn(rows):
            for r in rows:
                twin = copy.deepcopy(r)     # an independent copy, taken BEFORE r is handed downstream
                yield r
                yield twin
    elif name == 'identity':
        def rows_fn(rows):
            yield from rows
    elif name == 'head':
        k_ = spec.get('n', 10)

        def rows_fn(rows):
            for i, r in enumerate(rows):
                if i >= k_:
                    return                  # stops early: the rest of the resource is simply not asked for
                yield r
    elif name == 'swallow':
        def rows_fn(rows):
            for r in rows:
                pass
            return
            yield
    else:
        raise AssertionError(name)
    return rows_fn


def user_package_fn(spec):
    fname = spec['field']

    def package_fn(package):
        for r in package.pkg.descriptor['resources']:
            r['schema']['fields'].append({'name': fname, 'type': 'integer'})
        yield package.pkg
        for res in package:
            yield (dict(row, **{fname: len(row)}) for row in res)
    return package_fn


def reference_apply(spec, descriptor, tables):
    """Plain-Python semantics of a user callable step applied to a materialised package
    (used by C01: a link the framework silently drops shows up as lazy != reference)."""
    desc = copy.deepcopy(descriptor)
    tabs = copy.deepcopy(tables)
    k = spec['k']
    if k == 'row_fn':
        fn = user_row_fn(spec)
        out = []
        for t in tabs:
            nt = []
            for r in t:
                ret = fn(r)
                nt.append(r if ret is None else ret)
            out.append(nt)
        return desc, out
    if k == 'rows_fn':
        fn = user_rows_fn(spec)
        return desc, [list(fn(iter(t))) for t in tabs]
    if k == 'package_fn':
        for r in desc['resources']:
            r['schema']['fields'].append({'name': spec['field'], 'type': 'integer'})
        return desc, [[dict(row, **{spec['field']: len(row)}) for row in t] for t in tabs]
    raise AssertionError(k)


# ----------------------------------------------------------------------------- build
class Env:
    """Per-evaluation environment: scratch dirs, capture lists."""

    def __init__(self, ctx, tag=''):
        self.ctx = ctx
        self.dir = ctx.tmpdir()
        self.tag = tag
        self.captures = {}
        self.n = 0

    def path(self, name):
        self.n += 1
        return os.path.join(self.dir, '%s%d_%s' % (self.tag, self.n, name))

    def cap(self, key):
        return self.captures.setdefault(key, [])


def build(spec, env):
    d = dataflows
    k = spec['k']
    sel = copy.deepcopy(spec.get('res'))
    if k == 'add_field':
        return d.add_field(spec['name'], spec['type'], copy.deepcopy(spec['default']), resources=sel)
    if k == 'add_computed':
        kw = dict(target=spec['target'], operation=spec['operation'])
        if 'source' in spec:
            kw['source'] = list(spec['source'])
        if 'with' in spec:
            kw['with_'] = spec['with']
        return d.add_computed_field(resources=sel, **kw)
    if k == 'delete_fields':
        return d.delete_fields(list(spec['fields']), resources=sel, regex=False)
    if k == 'select_fields':
        return d.select_fields(list(spec['fields']), resources=sel, regex=False)
    if k == 'rename_fields':
        return d.rename_fields(dict(spec['fields']), resources=sel, regex=False)
    if k == 'find_replace':
        return d.find_replace([{'name': spec['field'], 'patterns': [{'find': spec['find'], 'replace': spec['replace']}]}],
                              resources=sel)
    if k == 'set_type':
        kw = copy.deepcopy(spec['options'])
        if spec.get('on_error'):
            kw['on_error'] = getattr(d.schema_validator, spec['on_error'])
        return d.set_type(spec['field'], resources=sel, regex=bool(spec.get('regex', False)), **kw)
    if k == 'validate':
        return d.validate(resources=sel)
    if k == 'filter_rows':
        if spec.get('equals') is not None:
            return d.filter_rows(equals=copy.deepcopy(spec['equals']), resources=sel)
        f = spec['field']
        return d.filter_rows(condition=lambda row: row.get(f) is not None, resources=sel)
    if k == 'set_pk_dedupe':
        return d.Flow(d.set_primary_key(list(spec['pk']), resources=sel), d.deduplicate(resources=sel))
    if k == 'sort_rows':
        return d.sort_rows(spec['key'], resources=sel, reverse=spec.get('reverse', False))
    if k == 'unpivot':
        return d.unpivot(copy.deepcopy(spec['unpivot_fields']), copy.deepcopy(spec['extra_keys']),
                         copy.deepcopy(spec['extra_value']), regex=False, resources=sel)
    if k == 'concatenate':
        return d.concatenate(copy.deepcopy(spec['fields']), copy.deepcopy(spec['target']), resources=sel)
    if k == 'duplicate':
        return d.duplicate(spec['source'], spec['target'], spec['target'] + '.csv', duplicate_to_end=spec['to_end'])
    if k == 'delete_resource':
        return d.delete_resource(sel)
    if k == 'join':
        return d.join(spec['source'], list(spec['source_key']), spec['target'], list(spec['target_key']),
                      fields=copy.deepcopy(spec['fields']), mode=spec['mode'], source_delete=spec['source_delete'])
    if k == 'update_resource':
        return d.update_resource(sel, title=spec['title'])
    if k == 'update_schema':
        return d.update_schema(sel, missingValues=['', 'NA'])
    if k == 'update_package':
        return d.update_package(title=spec['title'])
    if k == 'iterable' and spec.get('big'):
        lv = {'int': lambda j: j, 'str': lambda j: 'v%d' % j, 'float': lambda j: j / 4}[spec['late_type']]
        rows = [{'id': j + 1, 's': 'x%d' % (j % 5), 'late': None if j < 100 else lv(j)} for j in range(spec['big'])]
        return rows if spec.get('as') != 'generator' else (r for r in rows)
    if k == 'iterable':
        return copy.deepcopy(spec['rows']) if spec.get('as') != 'generator' else (r for r in copy.deepcopy(spec['rows']))
    if k == 'sources':
        return d.sources(copy.deepcopy(spec['rows']), (r for r in copy.deepcopy(spec['rows2'])))
    if k == 'load_csv':
        p = env.path(spec['name'] + '.csv')
        with open(p, 'w', newline='', encoding='utf-8') as f:
            w = csv.writer(f)
            w.writerow(spec['header'])
            w.writerows(spec['cells'])
        return d.load(p, name=spec['name'], encoding='utf-8', **copy.deepcopy(spec.get('options', {})))
    if k == 'printer':
        cap = env.cap('printer')
        return d.printer(num_rows=spec.get('num_rows', 2), fields=spec.get('fields'),
                         header_print=lambda h, kw: cap.append(('header', h)),
                         table_print=lambda t, kw: cap.append(('table', t)))
    if k == 'dump_to_path':
        p = env.path('dump')
        env.cap('dump_to_path').append(p)
        kw = {} if spec.get('format', 'csv') == 'csv' else {'format': spec['format']}
        if spec.get('filehash'):
            kw['add_filehash_to_path'] = True
        return d.dump_to_path(p, **kw)
    if k == 'dump_to_zip':
        p = env.path('dump.zip')
        env.cap('dump_to_zip').append(p)
        return d.dump_to_zip(p, **({'add_filehash_to_path': True} if spec.get('filehash') else {}))
    if k == 'stream_file':
        p = env.path(spec.get('name', 'stream.ndjson'))
        env.cap('stream_file').append(p)
        return d.stream(p)
    if k == 'checkpoint':
        p = env.path('cps')
        env.cap('checkpoint').append(os.path.join(p, 'cp', 'stream.ndjson'))
        return d.checkpoint('cp', checkpoint_path=p)
    if k == 'finalizer':
        cap = env.cap('finalizer')
        if spec.get('with_stats'):
            def cb(stats):
                cap.append(('called', copy.deepcopy(stats)))
        else:
            def cb():
                cap.append(('called', None))
        return d.finalizer(cb)
    if k == 'update_stats':
        return d.update_stats({spec['key']: spec['value']})
    if k == 'row_fn':
        return _wrap_form(user_row_fn(spec), spec.get('form', 'def'), 'row')
    if k == 'rows_fn':
        return _wrap_form(user_rows_fn(spec), spec.get('form', 'def'), 'rows')
    if k == 'package_fn':
        return _wrap_form(user_package_fn(spec), spec.get('form', 'def'), 'package')
    raise AssertionError('unknown step kind %r' % k)


# ----------------------------------------------------------------------------- state
def state_of(descriptor):
    return [{'name': r['name'], 'fields': [{'name': f['name'], 'type': f.get('type', 'any')} for f in r['schema'].get('fields', [])],
             'pk': r['schema'].get('primaryKey')} for r in descriptor['resources']]


def _by_type(res, types):
    return [f['name'] for f in res['fields'] if f['type'] in types]


def _plain(name):
    import re
    return re.fullmatch(r'[A-Za-z_][A-Za-z0-9_]*', name) is not None


# only C01 lets user row functions raise StopIteration (everywhere else a program is expected to run to its end)
ALLOW_STOP_ITERATION = [False]


class Skip(Exception):
    pass


def need(cond):
    if not cond:
        raise Skip()


# steps whose `resources` argument may also select SEVERAL resources at once (None = all of them): the fields they name
# exist in every resource then, possibly with different types
MULTI_RES_KINDS = {'add_field', 'add_computed', 'rename_fields', 'delete_fields', 'set_type', 'find_replace', 'validate',
                   'update_schema', 'filter_rows', 'sort_rows', 'unpivot', 'select_fields'}


def _referenced_fields(spec):
    k = spec['k']
    if k == 'add_computed':
        import re
        return list(spec.get('source', [])) + re.findall(r'\{(\w+)\}', str(spec.get('with', '')))
    if k in ('delete_fields', 'select_fields'):
        return list(spec['fields'])
    if k == 'rename_fields':
        return list(spec['fields'])
    if k in ('find_replace', 'set_type'):
        return [spec['field']]
    if k == 'filter_rows':
        return [spec['field']] + ([x for e in spec['equals'] for x in e] if spec.get('equals') else [])
    if k == 'sort_rows':
        return [spec['key'].strip('{}')]
    if k == 'unpivot':
        return [u['name'] for u in spec['unpivot_fields']]
    return []


@st.composite
def draw_spec(draw, state, kinds, counter):
    """One candidate spec that is plausible for `state`, or None (final validity is decided by running it)."""
    try:
        spec = _draw_spec(draw, state, kinds, counter)
    except Skip:
        return None
    if spec is not None and spec['k'] in MULTI_RES_KINDS and len(state) >= 2 and 'res' in spec and draw(st.integers(0, 2)) == 0:
        refs = _referenced_fields(spec)
        new_names = set(spec['fields'].values()) if spec['k'] == 'rename_fields' else set()
        rn = spec['res'][0] if isinstance(spec['res'], list) else spec['res']
        home = next((r for r in state if r['name'] == rn), None)
        numeric_mix = spec['k'] == 'add_computed' and spec['operation'] in ('sum', 'avg', 'max', 'min', 'multiply')

        def same_kind(res, r):
            # the step stays well-typed: the field has the type it has in the resource the step was drawn for
            # (numeric folds may mix integer and number columns - that is what their type inference is for)
            t = next((f['type'] for f in res['fields'] if f['name'] == r), None)
            t0 = next((f['type'] for f in home['fields'] if f['name'] == r), None)
            return t is not None and (t == t0 or (numeric_mix and {t, t0} <= {'integer', 'number'}))
        if home is not None and all(all(same_kind(res, r) for r in refs) and
                                    not any(f['name'] in new_names for f in res['fields']) for res in state):
            spec['res'] = draw(st.sampled_from([None, [r['name'] for r in state]]))
    return spec


def _draw_spec(draw, state, kinds, counter):
    k = draw(st.sampled_from(kinds))
    res = draw(st.sampled_from(state))
    rn = res['name']
    sel = draw(st.sampled_from([[rn], rn] if _plain(rn) else [[rn]]))
    # PROTECTED fields (provenance markers of a harness) are never edited, renamed or dropped by drawn steps
    names = [f['name'] for f in res['fields'] if f['name'] not in PROTECTED]
    res = dict(res, fields=[f for f in res['fields'] if f['name'] not in PROTECTED])
    need(names or k in RES_KINDS + OBSERVER_KINDS + ['rows_fn', 'package_fn', 'validate'])
    n = counter[0]
    counter[0] += 1
    if k == 'add_field':
        t = draw(st.sampled_from(['string', 'integer', 'boolean']))
        dv = {'string': 'dflt', 'integer': 7, 'boolean': True}[t]
        return {'k': k, 'name': 'nf%d' % n, 'type': t, 'default': draw(st.sampled_from([dv, None])), 'res': sel}
    if k == 'add_computed':
        op = draw(st.sampled_from(['constant', 'format', 'sum', 'join', 'avg', 'max', 'multiply']))
        spec = {'k': k, 'target': 'cf%d' % n, 'operation': op, 'res': sel}
        ints = _by_type(res, ['integer'])
        nums = _by_type(res, ['integer', 'number'])
        if op in ('sum', 'avg', 'max', 'multiply'):
            need('id' in ints)
            # 'id' first (non-null integer), then possibly a number field: mixed integer / number sources
            spec['source'] = ['id'] + draw(st.lists(st.sampled_from(nums), max_size=2, unique=True))
        elif op == 'join':
            spec['source'] = draw(st.lists(st.sampled_from(names), min_size=1, max_size=2, unique=True))
            spec['with'] = '-'
        elif op == 'format':
            pl = [x for x in names if _plain(x)]
            need(pl)
            spec['with'] = 'v={%s}' % draw(st.sampled_from(pl))
        else:
            spec['with'] = 'K'
        return spec
    if k == 'delete_fields':
        need(len(names) >= 2)
        return {'k': k, 'fields': [draw(st.sampled_from(names[1:]))], 'res': sel}
    if k == 'select_fields':
        sub = draw(st.lists(st.sampled_from(names), min_size=1, max_size=len(names), unique=True))
        return {'k': k, 'fields': sub + sorted(PROTECTED & {f['name'] for f in state[[r['name'] for r in state].index(rn)]['fields']}),
                'res': sel}
    if k == 'rename_fields':
        form = draw(st.sampled_from(['fresh', 'fresh', 'swap', 'chain']))
        if form != 'fresh' and len(names) >= 2:
            a, b = draw(st.lists(st.sampled_from(names), min_size=2, max_size=2, unique=True))
            if form == 'swap':
                return {'k': k, 'fields': {a: b, b: a}, 'res': sel}
            return {'k': k, 'fields': {a: b, b: 'rn%d' % n}, 'res': sel}      # a->b, b->fresh (overlapping)
        return {'k': k, 'fields': {draw(st.sampled_from(names)): 'rn%d' % n}, 'res': sel}
    if k == 'find_replace':
        s = _by_type(res, ['string'])
        need(s)
        return {'k': k, 'field': draw(st.sampled_from(s)), 'find': draw(st.sampled_from(['a', 'e', '\\d'])), 'replace': '_', 'res': sel}
    if k == 'set_type':
        ints = _by_type(res, ['integer'])
        strs = _by_type(res, ['string'])
        need(ints or strs)
        pstrs = [x for x in strs if _plain(x)]
        if len(pstrs) >= 2 and draw(st.integers(0, 1)) == 0:
            # several text fields retyped at once; text that is not a number is cleared (so every row still conforms)
            two = draw(st.lists(st.sampled_from(pstrs), min_size=2, max_size=2, unique=True))
            return {'k': k, 'field': '|'.join(two), 'regex': True, 'options': {'type': 'integer'}, 'on_error': 'clear', 'res': sel}
        if ints and (not strs or draw(st.booleans())):
            return {'k': k, 'field': draw(st.sampled_from(ints)), 'options': {'type': 'number'}, 'res': sel}
        return {'k': k, 'field': draw(st.sampled_from(strs)), 'options': {'type': 'string', 'title': 'T'}, 'res': sel}
    if k == 'validate':
        return {'k': k, 'res': sel}
    if k == 'filter_rows':
        f = draw(st.sampled_from(names))
        if draw(st.booleans()):
            return {'k': k, 'field': f, 'res': sel}
        return {'k': k, 'equals': [{'id': draw(st.integers(1, 3))}] if 'id' in names else None, 'field': f, 'res': sel}
    if k == 'set_pk_dedupe':
        keyable = _by_type(res, ['integer', 'string', 'date', 'boolean'])
        need(keyable)
        return {'k': k, 'pk': [draw(st.sampled_from(keyable))], 'res': sel}
    if k == 'sort_rows':
        f = draw(st.sampled_from([x for x in names if _plain(x)] or ['id']))
        need(f in names)
        return {'k': k, 'key': '{%s}' % f, 'reverse': draw(st.booleans()), 'res': sel}
    if k == 'unpivot':
        for t in ('integer', 'string', 'number', 'date', 'boolean'):
            c = [x for x in _by_type(res, [t]) if x != 'id']
            if len(c) >= 1:
                up = c[:2]
                return {'k': k, 'unpivot_fields': [{'name': u, 'keys': {'uk%d' % n: u}} for u in up],
                        'extra_keys': [{'name': 'uk%d' % n, 'type': 'string'}],
                        'extra_value': {'name': 'uv%d' % n, 'type': t}, 'res': sel}
        need(False)
    if k == 'concatenate':
        need(len(state) >= 2)
        res = draw(st.sampled_from(state[:-1]))
        rn = res['name']
        i = state.index(res)
        other = state[i + 1]
        common = [f['name'] for f in res['fields']
                  if any(g['name'] == f['name'] and g['type'] == f['type'] for g in other['fields'])]
        need('id' in common)
        return {'k': k, 'fields': {c: [] for c in common}, 'target': {'name': 'cat%d' % n, 'path': 'cat%d.csv' % n},
                'res': [rn, other['name']]}
    if k == 'duplicate':
        return {'k': k, 'source': rn, 'target': 'dup%d' % n, 'to_end': draw(st.booleans())}
    if k == 'delete_resource':
        need(len(state) >= 2)
        return {'k': k, 'res': sel}
    if k == 'join':
        need(len(state) >= 2)
        res = draw(st.sampled_from(state[:-1]))
        rn = res['name']
        names = [f['name'] for f in res['fields']]
        need(names)
        i = state.index(res)
        tgt = draw(st.sampled_from(state[i + 1:]))
        key = draw(st.sampled_from(['id', 'g', 'g', '#']))
        if key == '#':
            fsrc = draw(st.sampled_from(res['fields']))
            return {'k': k, 'source': rn, 'source_key': ['#'], 'target': tgt['name'], 'target_key': ['#'],
                    'fields': {'jf%d' % n: {'name': fsrc['name'], 'aggregate': draw(st.sampled_from(['first', 'last', 'count', 'array']))}},
                    'mode': draw(st.sampled_from(['inner', 'half-outer', 'full-outer'])), 'source_delete': draw(st.booleans())}
        need(key in names and any(f['name'] == key for f in tgt['fields']))
        # well-typed join: both key fields have the same type
        need({f['type'] for f in res['fields'] if f['name'] == key} == {f['type'] for f in tgt['fields'] if f['name'] == key})
        fsrc = draw(st.sampled_from(res['fields']))
        aggs = ['first', 'last', 'count', 'array', 'any']
        if fsrc['type'] in ('integer', 'number'):
            aggs += ['sum', 'max', 'min', 'avg', 'median']
        if fsrc['type'] in ('string', 'date'):
            aggs += ['max', 'min', 'set']
        if fsrc['type'] == 'string':
            aggs += ['counters']
        return {'k': k, 'source': rn, 'source_key': [key], 'target': tgt['name'], 'target_key': [key],
                'fields': {'jf%d' % n: {'name': fsrc['name'], 'aggregate': draw(st.sampled_from(aggs))}},
                'mode': draw(st.sampled_from(['inner', 'half-outer', 'full-outer'])),
                'source_delete': draw(st.booleans())}
    if k == 'update_resource':
        return {'k': k, 'title': 'T%d' % n, 'res': sel}
    if k == 'update_schema':
        return {'k': k, 'res': sel}
    if k == 'update_package':
        return {'k': k, 'title': 'P%d' % n}
    if k == 'iterable' and draw(st.integers(0, 5)) == 0:
        # longer than the 100-row inference sample, with a column that only gets values after the sample
        return {'k': k, 'big': draw(st.sampled_from([101, 120])), 'late_type': draw(st.sampled_from(['int', 'str', 'float'])),
                'as': draw(st.sampled_from(['list', 'generator']))}
    if k in ('iterable', 'sources'):
        nr = draw(st.integers(0, 3))
        rows = [{'id': j + 1, 's': draw(st.sampled_from(['x', 'y', 'zz'])), 'q': draw(st.integers(0, 5))} for j in range(nr)]
        spec = {'k': k, 'rows': rows, 'as': draw(st.sampled_from(['list', 'generator']))}
        if k == 'sources':
            spec['rows2'] = [{'id': 1, 'w': 'only'}]
        return spec
    if k == 'load_csv' and draw(st.integers(0, 4)) == 0:
        # repeated header names, one of which already looks like a de-duplicated name
        nr = draw(st.integers(1, 3))
        return {'k': k, 'name': 'csv%d' % n, 'header': ['id', 'amount', 'amount', 'amount (1)', 'Amount'],
                'cells': [[str(j + 1), str(10 + j), str(20 + j), str(30 + j), str(40 + j)] for j in range(nr)],
                'options': dict(draw(st.sampled_from([{'cast_strategy': 'schema'}, {'infer_strategy': 'strings'}])),
                                deduplicate_headers=True)}
    if k == 'load_csv' and draw(st.integers(0, 4)) == 0:
        # a column in which most - not all - cells look like numbers: its type has to fit every cell
        nr = draw(st.sampled_from([8, 10, 20]))
        odd = draw(st.integers(0, nr - 1))
        return {'k': k, 'name': 'csv%d' % n, 'header': ['id', 'label', 'amount'],
                'cells': [[str(j + 1), 'x', ('X%03d' % j) if j == odd else str(100 + j)] for j in range(nr)],
                # (cast, as every generated load: uncast CSV text under a numeric type is ill-typed input for later steps)
                'options': {'cast_strategy': 'schema'}}
    if k == 'load_csv':
        nr = draw(st.integers(0, 3))
        return {'k': k, 'name': 'csv%d' % n, 'header': ['id', 'label', 'amount'],
                'cells': [[str(j + 1), draw(st.sampled_from(['x', 'y,z', 'é'])), str(draw(st.integers(0, 50)))] for j in range(nr)],
                # load's default leaves CSV cells as text under inferred numeric types; a well-typed pipeline casts them
                'options': draw(st.sampled_from([{'cast_strategy': 'schema'}, {'infer_strategy': 'strings'},
                                                 {'infer_strategy': 'strings', 'cast_strategy': 'strings'}]))}
    if k == 'printer':
        return {'k': k, 'num_rows': draw(st.sampled_from([1, 2, 10]))}
    if k == 'dump_to_path':
        return {'k': k, 'format': draw(st.sampled_from(['csv', 'csv', 'json'])), 'filehash': draw(st.sampled_from([False, False, True]))}
    if k == 'dump_to_zip':
        return {'k': k, 'filehash': draw(st.sampled_from([False, False, True]))}
    if k == 'stream_file':
        return {'k': k, 'name': draw(st.sampled_from(STREAM_FILE_NAMES))}
    if k == 'checkpoint':
        return {'k': k}
    if k == 'finalizer':
        return {'k': k, 'with_stats': draw(st.booleans())}
    if k == 'update_stats':
        return {'k': k, 'key': 'stat%d' % n, 'value': n}
    if k == 'row_fn' and ALLOW_STOP_ITERATION[0] and draw(st.integers(0, 7)) == 0:
        return {'k': k, 'fn': 'stop_at', 'field': 'id', 'at': draw(st.integers(1, 3)), 'form': draw(st.sampled_from(FORMS))}
    if k == 'row_fn':
        fn = draw(st.sampled_from(['inc_int', 'upper', 'inc_int', 'append_nested']))
        if _by_type(res, ['array', 'object']) and draw(st.booleans()):
            fn = 'append_nested'            # nested values are shared by shallow copies: edit them when there are any
        cand = _by_type(res, ['integer']) if fn == 'inc_int' else _by_type(res, ['string']) if fn == 'upper' else \
            _by_type(res, ['array', 'object'])
        if not cand and fn == 'append_nested':
            fn = 'inc_int'
            cand = _by_type(res, ['integer'])
        need(cand)
        return {'k': k, 'fn': fn, 'field': draw(st.sampled_from(cand)), 'form': draw(st.sampled_from(FORMS))}
    if k == 'rows_fn':
        return {'k': k, 'fn': draw(st.sampled_from(['drop_odd', 'double', 'identity'])), 'form': draw(st.sampled_from(FORMS))}
    if k == 'package_fn':
        return {'k': k, 'field': 'pf%d' % n, 'form': draw(st.sampled_from(FORMS))}
    raise AssertionError(k)


def simulate(spec, descriptor, ctx):
    """Descriptor after the step, obtained by running the real step on zero rows; None if the step rejects it."""
    env = Env(ctx, 'sim')
    try:
        step = build(spec, env)
        tables = [[] for _ in descriptor['resources']]
        out_desc, _ = run_steps([step], descriptor, tables)
        return out_desc
    except Exception:
        return None


_GEN_CTX = [None]


def gen_ctx():
    from vlib.kernel import Ctx
    if _GEN_CTX[0] is None:
        _GEN_CTX[0] = Ctx()
        import atexit
        atexit.register(_GEN_CTX[0].close)
    return _GEN_CTX[0]


@st.composite
def programs(draw, min_len=1, max_len=6, kinds=None, pkg=None, favour_mutators=True):
    """-> {'pkg': input resources, 'steps': [spec...]}"""
    kinds = kinds or ALL_KINDS
    pkg = pkg if pkg is not None else draw(input_package())
    descriptor = gen.descriptor_of(pkg)
    ctx = gen_ctx()
    n = draw(st.integers(min_len, max_len))
    steps = []
    counter = [1]
    # a drawn permutation of the catalogue is walked cyclically, so every kind gets its turn
    # (sampled_from alone is heavily biased towards the first few kinds)
    order = list(draw(st.permutations(kinds)))
    pos = 0
    tries = 0
    while len(steps) < n and tries < len(order) + 6 * n:
        tries += 1
        state = state_of(descriptor)
        if not state:
            break
        kind = order[pos % len(order)]
        pos += 1
        if favour_mutators and steps and steps[-1]['k'] in SHARERS and draw(st.booleans()):
            # steps that keep / copy / persist rows are followed by steps that edit rows in place
            mut = [m for m in MUTATORS if m in kinds]
            if mut:
                kind = draw(st.sampled_from(mut))
                pos -= 1
        spec = draw(draw_spec(state, [kind], counter))
        if favour_mutators and steps and steps[-1]['k'] == 'join' and not steps[-1]['source_delete'] \
                and 'row_fn' in kinds and draw(st.booleans()):
            # the source stays in the package: edit, in place, exactly the field the join aggregated
            j = steps[-1]
            fname = list(j['fields'].values())[0]['name']
            if j['source_key'] != ['#'] and draw(st.integers(0, 2)) == 0:
                fname = j['source_key'][0]           # ... or the key field the source rows were indexed under
            ftype = next((f['type'] for r in state if r['name'] == j['source'] for f in r['fields'] if f['name'] == fname), None)
            if ftype in ('integer', 'string'):
                spec = {'k': 'row_fn', 'fn': 'inc_int' if ftype == 'integer' else 'upper', 'field': fname,
                        'form': draw(st.sampled_from(FORMS))}
        if favour_mutators and steps and steps[-1]['k'] == 'duplicate' and 'row_fn' in kinds and draw(st.booleans()):
            # edit, in place, a field of the resource that was just duplicated (nested values first: they are
            # shared by shallow copies)
            src = next((r for r in state if r['name'] == steps[-1]['source']), None)
            if src is not None:
                nested = _by_type(src, ['array', 'object'])
                ints = [x for x in _by_type(src, ['integer'])]
                if nested:
                    spec = {'k': 'row_fn', 'fn': 'append_nested', 'field': draw(st.sampled_from(nested)), 'form': draw(st.sampled_from(FORMS))}
                elif ints:
                    spec = {'k': 'row_fn', 'fn': 'inc_int', 'field': draw(st.sampled_from(ints)), 'form': draw(st.sampled_from(FORMS))}
        if spec is None:
            continue
        new_desc = simulate(spec, descriptor, ctx)
        ctx.clean_case()
        if new_desc is None:
            if spec['k'] in ('iterable', 'sources', 'load_csv'):
                # these specs are valid by construction (they bring their own data): a failure is the code's,
                # not the draw's - keep the step so that the check sees it, and end the program here
                steps.append(spec)
                break
            continue
        steps.append(spec)
        descriptor = new_desc
    assume(len(steps) >= min_len)
    return {'pkg': pkg, 'steps': steps}


def data_dependent_rejection(exc):
    """Errors that built-in steps document / imply for particular *data* (not for the program's types), which
    zero-row simulation cannot foresee: a numeric fold of add_computed_field over a row whose sources are all
    null (avg -> ZeroDivisionError, min/max -> ValueError, multiply -> TypeError from reduce), and concatenate's
    documented 'empty row' assertion.  Checks count such cases as rejected."""
    from vlib.kernel import root_cause, inner_frame
    rc = root_cause(exc)
    fr = inner_frame(rc) or ''
    if 'add_computed_field.py' in fr and isinstance(rc, (ZeroDivisionError, ValueError, TypeError)):
        msg = str(rc)
        if 'empty' in msg or 'division' in msg or 'zero' in msg.lower():
            return 'add_computed_field: numeric fold over all-null sources'
        if 'unsupported operand' in msg and 'Decimal' in msg and 'float' in msg:
            # a 'number' column may hold Decimals (casts) and floats (e.g. an average of integers): Python cannot mix them
            return 'add_computed_field: Decimal and float values mixed in one numeric fold'
    if isinstance(rc, TypeError) and 'not JSON serializable' in str(rc) and 'dumpers' in fr:
        # arrays / objects holding non-JSON-native members (Decimals, dates collected by a join) are outside the
        # file dumpers' domain (C03 quantifies over JSON-native nesting)
        return 'dumper: array/object value with non-JSON-native members'
    if isinstance(rc, AssertionError) and 'empty row' in str(rc):
        return 'concatenate: empty row'
    return None
