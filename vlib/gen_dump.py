"""Generators shared by the dumper properties (C03, C09, C19): typed packages in the domain the
file dumpers claim to round-trip, and dumper option sets."""
import copy
import decimal
import datetime

from hypothesis import strategies as st

from vlib import gen

DUMP_TYPES = ['string', 'integer', 'number', 'boolean', 'date', 'time', 'datetime', 'year', 'array', 'object']
# field names chosen so that schema order is usually NOT alphabetical
DUMP_FIELD_NAMES = ['zeta', 'alpha', 'Mid', 'b', 'a', 'é', 'x y', 'a.b', 'c_1', 'B', 'a,b', 'q"t']
TEMPORAL_FORMATS = {'date': ['%d/%m/%Y', '%Y%m%d'], 'time': ['%H.%M.%S', '%H%M%S'],
                    'datetime': ['%d/%m/%Y %H:%M:%S', '%Y%m%dT%H%M%S']}

_str_chars = ['"', "'", ',', ';', '|', '\t', '\n', ' ', '\\', 'é', 'ß', '日', '\U0001F600', 'a', 'B', '0', '1', '{', '}', '[', ':']


def dump_strings():
    """Strings inside the stated domain: no carriage return, no edge whitespace (load may strip)."""
    base = st.lists(st.sampled_from(_str_chars), max_size=8).map(''.join).map(lambda s: s.strip(' \t\n'))
    return st.one_of(base, st.sampled_from(['', 'None', 'null', 'True', '1', '1.5', 'NaN', '2020-01-01', '[]', '{}', 'a,b']))


def dump_value(t, custom_temporal=False):
    if t == 'string':
        return dump_strings()
    if t == 'integer':
        return gen.integers_mixed()
    if t == 'number':
        return st.one_of(gen.decimals_mixed(30), st.integers(-1000, 1000).map(decimal.Decimal),
                         gen.floats_finite().filter(lambda f: abs(f) < 1e15))
    if t == 'boolean':
        return st.booleans()
    lo = 1000 if custom_temporal else 1
    if t == 'date':
        return st.dates(min_value=datetime.date(lo, 1, 1))
    if t == 'time':
        return gen.times(micro=False)
    if t == 'datetime':
        return st.datetimes(min_value=datetime.datetime(lo, 1, 1)).map(lambda d: d.replace(microsecond=0))
    if t == 'year':
        return st.integers(0, 9999)
    if t == 'array':
        return gen.arrays()
    if t == 'object':
        return gen.objects()
    raise AssertionError(t)


@st.composite
def dump_resource(draw, name, tfp=None, max_fields=6, max_rows=8, types=None, sort_fields=False):
    n = draw(st.integers(1, max_fields))
    names = draw(st.lists(st.sampled_from(DUMP_FIELD_NAMES), min_size=n, max_size=n, unique=True))
    flds = []
    for nm in names:
        t = draw(st.sampled_from(types or DUMP_TYPES))
        f = {'name': nm, 'type': t}
        if t == 'number' and draw(st.integers(0, 3)) == 0:
            # the field arrives with lexical properties of wherever it was loaded from
            f.update(draw(st.sampled_from([{'decimalChar': ',', 'groupChar': '.'}, {'groupChar': ','}, {'decimalChar': ','}])))
        if tfp and t in TEMPORAL_FORMATS and draw(st.booleans()):
            f[tfp] = draw(st.sampled_from(TEMPORAL_FORMATS[t]))
        flds.append(f)
    k = draw(st.integers(0, max_rows))
    rows = []
    for _ in range(k):
        row = {}
        for f in flds:
            s = dump_value(f['type'], custom_temporal=bool(tfp and tfp in f))
            row[f['name']] = draw(st.one_of(*([s] * 5 + [st.none()])))
        rows.append(row)
    if sort_fields:
        flds.sort(key=lambda f: f['name'])
    r = {'name': name, 'fields': flds, 'rows': rows}
    keyable = [f['name'] for f in flds if f['type'] in ('string', 'integer', 'date')]
    if keyable and draw(st.booleans()):
        k = draw(st.sampled_from(keyable))
        vals = [row[k] for row in rows]
        # a primary key must hold unique non-null values (and '' reads as null)
        if all(v is not None and v != '' for v in vals) and len(set(map(repr, vals))) == len(vals):
            r['pk'] = [k]
    return r


@st.composite
def dump_package(draw, tfp=None, max_res=3, **kw):
    n = draw(st.integers(1, max_res))
    # (names that share the part before their first dot: a.b / a.c / a.b.c -> a.b.csv, a.c.csv, a.b.c.csv)
    names = draw(st.lists(st.sampled_from(['res1', 'data', 'a.b', 'sub/res', 'x-1', 'a.c', 'a.b.c']), min_size=n, max_size=n,
                          unique=True))
    pkg = [draw(dump_resource(nm, tfp=tfp, **kw)) for nm in names]
    if len(pkg) >= 2 and draw(st.integers(0, 5)) == 0:
        # two resources with different names and byte-identical contents (e.g. a duplicate)
        pkg[1] = dict(copy.deepcopy(pkg[0]), name=pkg[1]['name'])
        pkg[1].pop('path', None)
    for r in pkg:
        if '/' in r['name']:
            r['name'] = r['name'].replace('/', '_')
            r['path'] = 'sub/' + r['name'] + '.csv'
        if draw(st.integers(0, 3)) == 0:
            # the resource arrives with the properties of the file it was loaded from
            r['res_extra'] = draw(st.sampled_from([{'encoding': 'latin-1', 'format': 'csv'}, {'encoding': 'utf-16'},
                                                   {'format': 'csv'}, {'encoding': 'utf-8', 'format': 'json'},
                                                   # ... a CSV dialect of its own (the dumper writes ITS dialect)
                                                   {'dialect': {'header': False, 'delimiter': ';'}},
                                                   {'dialect': {'escapeChar': '\\', 'doubleQuote': False, 'quoteChar': "'"}},
                                                   {'format': 'csv', 'dialect': {'skipInitialSpace': True, 'lineTerminator': '\n',
                                                                                  'caseSensitiveHeader': True}}]))
    return pkg


def per_resource_formats(draw, pkg, opts):
    """force_format=False: every resource is written in the format its own path names (csv / json)."""
    import os
    opts['force_format'] = False
    for r in pkg:
        base = os.path.splitext(r.get('path') or (r['name'] + '.csv'))[0]
        r['path'] = base + '.' + draw(st.sampled_from(['csv', 'json']))


@st.composite
def dump_options(draw, counters=False):
    o = {'format': draw(st.sampled_from(['csv', 'json'])),
         'dumper': draw(st.sampled_from(['path', 'zip'])),
         'add_filehash_to_path': draw(st.sampled_from([False, False, True])),
         'pretty_descriptor': draw(st.sampled_from([None, True, False])),
         'tfp': draw(st.sampled_from([None, None, 'outputFormat']))}
    if counters:
        o['counters'] = draw(counter_options())
    return o


COUNTER_KEYS = ['datapackage-rowcount', 'datapackage-bytes', 'datapackage-hash',
                'resource-rowcount', 'resource-bytes', 'resource-hash']


@st.composite
def counter_options(draw):
    kind = draw(st.sampled_from(['default', 'default', 'renamed', 'dotted', 'some-none', 'mixed', 'sizes-off']))
    if kind == 'default':
        return None
    if kind == 'sizes-off':
        # nothing asks for the size or the digest of the data files
        return {'datapackage-bytes': None, 'resource-bytes': None, 'resource-hash': None}
    out = {}
    for i, k in enumerate(COUNTER_KEYS):
        choice = {'renamed': 'r', 'dotted': 'd', 'some-none': draw(st.sampled_from(['n', 'keep', 'keep'])),
                  'mixed': draw(st.sampled_from(['r', 'd', 'n', 'keep']))}[kind]
        short = k.split('-')[1]
        if choice == 'r':
            out[k] = 'my_' + short
        elif choice == 'd':
            # prefix-free dotted names (a dotted path never collides with another counter's leaf)
            out[k] = draw(st.sampled_from(['stats.%s_v' % short, 'meta.%s.value' % short, 'c%d.v' % i]))
        elif choice == 'n':
            out[k] = None
    return out


def res_format(opts, r):
    """The format resource r is written in: the forced one, or (force_format=False) the extension of its path."""
    import os
    if opts.get('force_format', True):
        return opts['format']
    return os.path.splitext(r.get('path') or (r['name'] + '.csv'))[1][1:]


def build_dumper(dataflows, opts, out_dir):
    """-> (step, location): a fresh dump_to_path / dump_to_zip step writing into out_dir."""
    import os
    kw = {}
    if not opts.get('force_format', True):
        kw['force_format'] = False
    elif opts['format'] != 'csv':
        kw['format'] = opts['format']
    if opts['add_filehash_to_path']:
        kw['add_filehash_to_path'] = True
    if opts['pretty_descriptor'] is not None:
        kw['pretty_descriptor'] = opts['pretty_descriptor']
    if opts['tfp']:
        kw['temporal_format_property'] = opts['tfp']
    if opts.get('counters') is not None:
        kw['counters'] = copy.deepcopy(opts['counters'])
    if opts.get('validator_options') is not None:
        kw['validator_options'] = dict(opts['validator_options'])
    if opts['dumper'] == 'path':
        loc = os.path.join(out_dir, 'pkg')
        return dataflows.dump_to_path(loc, **kw), loc
    loc = os.path.join(out_dir, 'pkg.zip')
    return dataflows.dump_to_zip(loc, **kw), loc
