"""Crash-point enumeration (C08, C19): run a function in a forked child in which every Python-level
I/O operation on files under a watched directory (and on NamedTemporaryFiles) is an *event*; kill the
child with os._exit at a chosen event - before it, or half-way through a write / copy chunk - and let
the parent inspect what is left on disk.

Kill variants:
  'lost'    plain os._exit: data still sitting in Python's userland buffers is lost (what SIGKILL does)
  'flushed' every open proxied file is flushed first: everything written so far reached the disk
            (what happens when the buffers happened to be flushed just before the kill)
  'mid'     for write / copy-chunk events: the first half of that write reaches the disk, then 'flushed'
  'raise'   no kill: the I/O call raises OSError(ENOSPC) and the exception unwinds through the code under
            test (finally blocks run); the child then ends with status 'error:3'
"""
import os
import sys
import json
import shutil
import builtins
import tempfile

_real_open = builtins.open
_real_rename = os.rename
_real_replace = os.replace
_real_makedirs = os.makedirs
_real_unlink = os.unlink
_real_copy = shutil.copy
_real_ntf = tempfile.NamedTemporaryFile


class _State:
    def __init__(self, watch, crash_at, variant, log_fd):
        self.watch = os.path.realpath(watch)
        self.crash_at = crash_at
        self.variant = variant
        self.n = 0
        self.files = []
        self.log_fd = log_fd
        self.next_id = 0
        self.temp_names = set()

    def watched(self, path):
        try:
            return os.path.realpath(str(path)).startswith(self.watch)
        except Exception:
            return False

    def die(self):
        if self.variant in ('flushed', 'mid'):
            for f in self.files:
                try:
                    f._real.flush()
                except Exception:
                    pass
        os._exit(17)

    def event(self, kind, ident, partial=None):
        """Called BEFORE performing an operation.  `partial` performs half of it (for 'mid')."""
        self.n += 1
        if self.log_fd is not None:
            os.write(self.log_fd, (json.dumps([kind, ident]) + '\n').encode())
        if self.n == self.crash_at:
            if self.variant == 'raise':
                # an I/O error instead of a kill: the exception unwinds through the code under test
                self.crash_at = None
                raise OSError(28, 'injected I/O error at event %d (%s %s)' % (self.n, kind, ident))
            if self.variant == 'mid' and partial is not None:
                try:
                    partial()
                except Exception:
                    pass
            self.die()


class FileProxy:
    def __init__(self, real, state, ident):
        object.__setattr__(self, '_real', real)
        object.__setattr__(self, '_state', state)
        object.__setattr__(self, '_ident', ident)
        state.files.append(self)

    def write(self, data):
        half = data[:len(data) // 2]
        self._state.event('write', self._ident, (lambda: self._real.write(half)) if len(data) > 1 else None)
        return self._real.write(data)

    def writelines(self, lines):
        for line in lines:
            self.write(line)

    def flush(self):
        self._state.event('flush', self._ident)
        return self._real.flush()

    def close(self):
        if not getattr(self._real, 'closed', False):
            self._state.event('close', self._ident)
        return self._real.close()

    def __enter__(self):
        return self

    def __exit__(self, *a):
        self.close()

    def __iter__(self):
        return iter(self._real)

    def __getattr__(self, name):
        return getattr(self._real, name)

    def __setattr__(self, name, value):
        setattr(self._real, name, value)


def _install(state):
    def p_open(file, mode='r', *a, **kw):
        f = _real_open(file, mode, *a, **kw)
        if isinstance(file, (str, bytes, os.PathLike)) and any(c in mode for c in 'wax+') and state.watched(file):
            state.next_id += 1
            ident = 'f%d:%s' % (state.next_id, os.path.relpath(os.path.realpath(str(file)), state.watch))
            state.event('open', ident)
            return FileProxy(f, state, ident)
        return f

    def p_ntf(*a, **kw):
        f = _real_ntf(*a, **kw)
        state.next_id += 1
        state.temp_names.add(f.name)
        return FileProxy(f, state, 't%d:tempfile' % state.next_id)

    def p_rename(src, dst, *a, **kw):
        if state.watched(dst) or state.watched(src):
            state.event('rename', os.path.basename(str(dst)))
        return _real_rename(src, dst, *a, **kw)

    def p_makedirs(path, *a, **kw):
        if state.watched(path) and not os.path.isdir(path):
            state.event('makedirs', os.path.relpath(os.path.realpath(str(path)), state.watch))
        return _real_makedirs(path, *a, **kw)

    def p_unlink(path, *a, **kw):
        # only files the code under test created: its own temp files and files in the watched directory
        if path in state.temp_names:
            state.event('unlink', 'tempfile')
        elif state.watched(path):
            state.event('unlink', os.path.basename(str(path)))
        return _real_unlink(path, *a, **kw)

    def p_copy(src, dst, *a, **kw):
        if not state.watched(dst):
            return _real_copy(src, dst, *a, **kw)
        if os.path.isdir(dst):
            dst = os.path.join(dst, os.path.basename(src))
        ident = 'copy:' + os.path.relpath(os.path.realpath(str(dst)), state.watch)
        with _real_open(src, 'rb') as fi:
            data = fi.read()
        state.event('copy-open', ident)
        fd = os.open(dst, os.O_WRONLY | os.O_CREAT | os.O_TRUNC, 0o644)
        try:
            n = 3
            size = len(data)
            bounds = [size * i // n for i in range(n + 1)]
            for i in range(n):
                chunk = data[bounds[i]:bounds[i + 1]]
                state.event('copy-chunk', ident, (lambda c=chunk: os.write(fd, c[:len(c) // 2])) if len(chunk) > 1 else None)
                os.write(fd, chunk)
        finally:
            os.close(fd)
        try:
            shutil.copymode(src, dst)
        except Exception:
            pass
        return dst

    builtins.open = p_open
    tempfile.NamedTemporaryFile = p_ntf
    os.rename = p_rename
    os.makedirs = p_makedirs
    os.unlink = p_unlink
    shutil.copy = p_copy


def run_child(fn, watch, crash_at=None, variant='lost', record=False):
    """Run fn() in a forked child with the proxies installed.
    -> (status, events): status 'completed' | 'crashed' | 'error:<code>' ; events only when record=True."""
    r = w = None
    if record:
        r, w = os.pipe()
    pid = os.fork()
    if pid == 0:
        code = 0
        try:
            if r is not None:
                os.close(r)
            state = _State(watch, crash_at, variant, w)
            _install(state)
            try:
                fn()
            except SystemExit:
                raise
            except BaseException:
                code = 3
        finally:
            os._exit(code)
    if w is not None:
        os.close(w)
    events = None
    if r is not None:
        chunks = []
        while True:
            b = os.read(r, 65536)
            if not b:
                break
            chunks.append(b)
        os.close(r)
        events = [json.loads(line) for line in b''.join(chunks).decode().splitlines() if line]
    _, st = os.waitpid(pid, 0)
    code = os.waitstatus_to_exitcode(st)
    status = 'completed' if code == 0 else 'crashed' if code == 17 else 'error:%d' % code
    return status, events


def crash_points(events, coalesce=True):
    """Event numbers (1-based) to crash at.  A run of consecutive 'write' events on one file is represented
    by its first, a middle and its last event (the rule is recorded in the evidence)."""
    if not coalesce:
        return list(range(1, len(events) + 1))
    picks = []
    i = 0
    n = len(events)
    while i < n:
        kind, ident = events[i]
        if kind == 'write':
            j = i
            while j + 1 < n and events[j + 1][0] == 'write' and events[j + 1][1] == ident:
                j += 1
            run = sorted({i, (i + j) // 2, j})
            picks.extend(k + 1 for k in run)
            i = j + 1
        else:
            picks.append(i + 1)
            i += 1
    return picks
