"""Harness-owned cooperative scheduler for dataflows.processors.parallelize (C18).

The module's `mp`, `threading` and `queue` names are replaced by shims whose blocking operations are
scheduling points.  Every activity (the consuming generator, the producer thread, each worker "process",
the collector thread, and one asynchronous *feeder* per (mp.Queue, producing task) that models the
background thread which moves put() items into the pipe) is a task; at every scheduling point the next
enabled task is chosen by the next integer of a generated schedule.  Tasks are greenlets, so execution
is single-threaded and exactly reproducible from the schedule.

Modelled semantics: mp.Queue.put pickles immediately (process-boundary copy), items of one producer
become visible in FIFO order, at scheduler-chosen later moments, interleaved arbitrarily with other
producers' items; queue.Queue is synchronous; Process/Thread.join blocks until the task ended.
Detected deterministically: deadlock (no enabled task while some are unfinished) and step overrun."""
import sys
import pickle
import collections

import greenlet


class Deadlock(Exception):
    pass


class StepLimit(Exception):
    pass


class Task:
    def __init__(self, sched, name, fn=None, args=(), feeder=None):
        self.sched = sched
        self.name = name
        self.done = False
        self.pred = None
        self.feeder = feeder          # (queue, buffer) for feeder pseudo-tasks
        self.error = None
        self.result = None
        if fn is not None:
            def body():
                try:
                    self.result = fn(*args)
                except greenlet.GreenletExit:
                    raise
                except BaseException as e:      # noqa
                    self.error = e
                finally:
                    self.done = True
            self.g = greenlet.greenlet(body, parent=sched.hub)
        else:
            self.g = None

    def enabled(self):
        if self.done:
            return False
        if self.feeder is not None:
            return len(self.feeder[1]) > 0
        return self.pred is None or self.pred()

    def step(self):
        if self.feeder is not None:
            q, buf = self.feeder
            q.items.append(buf.popleft())
            return
        self.sched.current = self
        self.g.switch()
        self.sched.current = None


class Scheduler:
    def __init__(self, schedule, max_steps=200000, deviations=None):
        # deviations: {decision index: choice} on top of the default "first enabled task" schedule (used for the
        # bounded-exhaustive exploration: all schedules with at most k deviations from the default one)
        self.deviations = deviations
        self.branching = []
        self.schedule = list(schedule)
        self.pos = 0
        self.max_steps = max_steps
        self.tasks = []
        self.current = None
        self.hub = greenlet.getcurrent()
        self.decisions = 0            # scheduling points with >= 2 enabled tasks
        self.steps = 0
        self.trace = []
        self.finish_order = []

    # ---- task side
    def spawn(self, name, fn, args=()):
        t = Task(self, name, fn, args)
        self.tasks.append(t)
        return t

    def feeder_for(self, q, producer):
        key = (id(q), id(producer))
        t = q.feeders.get(key)
        if t is None:
            buf = collections.deque()
            t = Task(self, 'feeder(%s<-%s)' % (q.name, producer.name if producer else 'main'), feeder=(q, buf))
            q.feeders[key] = t
            self.tasks.append(t)
        return t

    def block(self, pred=None):
        """Scheduling point of the running task: give control to the hub; resume only when pred() holds."""
        cur = self.current
        assert cur is not None, 'harness: scheduling point outside a task'
        cur.pred = pred
        self.hub.switch()
        cur.pred = None

    # ---- hub side
    def run(self, main_fn):
        main = self.spawn('consumer', main_fn)
        while True:
            enabled = [t for t in self.tasks if t.enabled()]
            if not enabled:
                live = [t.name for t in self.tasks if not t.done and t.feeder is None]
                if live:
                    raise Deadlock('no enabled task; unfinished: %s' % live)
                break
            if len(enabled) > 1:
                self.decisions += 1
            if self.deviations is not None:
                c = self.deviations.get(self.pos, 0)
                self.branching.append(len(enabled))
            elif self.pos < len(self.schedule):
                c = self.schedule[self.pos]
            else:
                c = self.pos            # after the schedule is used up: round robin
            self.pos += 1
            t = enabled[c % len(enabled)]
            self.steps += 1
            if self.steps > self.max_steps:
                raise StepLimit('more than %d scheduling steps' % self.max_steps)
            if len(self.trace) < 400:
                self.trace.append(t.name)
            was_done = t.done
            t.step()
            if t.done and not was_done:
                self.finish_order.append(t.name)
        return main


class ThreadQueue:
    """queue.Queue shim (same process: no copy, immediately visible)."""

    def __init__(self, sched, name='q_internal'):
        self.sched = sched
        self.name = name
        self.items = collections.deque()

    def put(self, obj, *a, **kw):
        self.items.append(obj)
        self.sched.block()

    def get(self, *a, **kw):
        self.sched.block(lambda: len(self.items) > 0)
        return self.items.popleft()


class MPQueue:
    """multiprocessing.Queue shim: pickling on put, asynchronous per-producer feeder."""
    _n = 0

    def __init__(self, sched):
        self.sched = sched
        MPQueue._n += 1
        self.name = 'mpq%d' % MPQueue._n
        self.items = collections.deque()
        self.feeders = {}

    def put(self, obj, *a, **kw):
        data = pickle.dumps(obj)
        f = self.sched.feeder_for(self, self.sched.current)
        f.feeder[1].append(data)
        self.sched.block()

    def get(self, *a, **kw):
        self.sched.block(lambda: len(self.items) > 0)
        return pickle.loads(self.items.popleft())

    def close(self):
        pass

    def join_thread(self):
        pass


class MPSimpleQueue:
    """multiprocessing.SimpleQueue shim: a pipe without a feeder thread.  put() pickles and writes synchronously: it
    completes when the data fits into the pipe buffer (64 KiB); a bigger write completes only while a reader drains it."""
    CAP = 65536

    def __init__(self, sched):
        self.sched = sched
        MPQueue._n += 1
        self.name = 'mpsq%d' % MPQueue._n
        self.items = collections.deque()
        self.bytes = 0
        self.getters = 0

    def put(self, obj):
        data = pickle.dumps(obj)
        self.sched.block(lambda: self.bytes + len(data) <= self.CAP or (self.bytes == 0 and self.getters > 0))
        self.items.append(data)
        self.bytes += len(data)
        self.sched.block()

    def get(self):
        self.getters += 1
        try:
            self.sched.block(lambda: len(self.items) > 0)
        finally:
            self.getters -= 1
        data = self.items.popleft()
        self.bytes -= len(data)
        return pickle.loads(data)

    def empty(self):
        return not self.items

    def close(self):
        pass


class HarnessUnsupported(Exception):
    """The code under test asked the shims for something they do not model (reported as a harness error)."""


class _Runner:
    def __init__(self, sched, kind, target=None, args=(), kwargs=None, **_):
        self.sched = sched
        self.kind = kind
        self.target = target
        self.args = args
        self.task = None
        self.closed = False

    def start(self):
        n = sum(1 for t in self.sched.tasks if t.name.startswith(self.kind))
        self.task = self.sched.spawn('%s%d:%s' % (self.kind, n, getattr(self.target, '__name__', '?')), self.target, self.args)
        self.sched.block()

    def join(self, timeout=None):
        self.sched.block(lambda: self.task.done)

    def is_alive(self):
        return not self.task.done

    def kill(self):
        pass

    def terminate(self):
        pass

    def close(self):
        self.closed = True


class ShimMP:
    def __init__(self, sched):
        self.sched = sched

    def Queue(self, *a, **kw):
        return MPQueue(self.sched)

    def Process(self, *a, **kw):
        return _Runner(self.sched, 'worker', **kw)

    def SimpleQueue(self, *a, **kw):
        return MPSimpleQueue(self.sched)

    def get_context(self, *a, **kw):
        return self

    def cpu_count(self):
        return 4

    def __getattr__(self, name):
        raise HarnessUnsupported('multiprocessing.%s is not modelled by the scheduler shim' % name)


class ShimThreading:
    def __init__(self, sched):
        self.sched = sched

    def Thread(self, *a, **kw):
        return _Runner(self.sched, 'thread', **kw)

    def __getattr__(self, name):
        raise HarnessUnsupported('threading.%s is not modelled by the scheduler shim' % name)


class ShimQueueModule:
    def __init__(self, sched):
        self.sched = sched
        self.Empty = __import__('queue').Empty

    def Queue(self, *a, **kw):
        return ThreadQueue(self.sched)

    def SimpleQueue(self, *a, **kw):
        return ThreadQueue(self.sched)

    def __getattr__(self, name):
        raise HarnessUnsupported('queue.%s is not modelled by the scheduler shim' % name)


class patched:
    """Context manager: run parallelize's module with the shims installed."""

    def __init__(self, sched):
        self.sched = sched
        import dataflows  # noqa
        self.mod = sys.modules['dataflows.processors.parallelize']

    def __enter__(self):
        self.saved = (self.mod.mp, self.mod.threading, self.mod.queue)
        self.mod.mp = ShimMP(self.sched)
        self.mod.threading = ShimThreading(self.sched)
        self.mod.queue = ShimQueueModule(self.sched)
        return self

    def __exit__(self, *a):
        self.mod.mp, self.mod.threading, self.mod.queue = self.saved
