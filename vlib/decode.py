"""Independent decoder for dumped data packages (C03 / C05 / C09 / C19).

Reads each data file using ONLY what the written descriptor records: path, format, encoding, CSV
dialect, missingValues and the per-field type / format / decimalChar / groupChar / trueValues /
falseValues.  Deliberately does not use tableschema / tabulator / datapackage."""
import io
import os
import csv
import json
import zipfile
import hashlib
import decimal
import datetime


class DecodeError(Exception):
    pass


class Store:
    """Uniform byte access to a dumped package: directory or zip file."""

    def __init__(self, location):
        self.location = location
        self.zip = None
        if os.path.isfile(location):
            self.zip = zipfile.ZipFile(location)

    def exists(self, path):
        if self.zip:
            return path in self.zip.namelist()
        return os.path.isfile(os.path.join(self.location, path))

    def read(self, path):
        if self.zip:
            return self.zip.read(path)
        with open(os.path.join(self.location, path), 'rb') as f:
            return f.read()

    def listing(self):
        if self.zip:
            return sorted(self.zip.namelist())
        out = []
        for root, _, files in os.walk(self.location):
            for f in files:
                out.append(os.path.relpath(os.path.join(root, f), self.location))
        return sorted(out)

    def close(self):
        if self.zip:
            self.zip.close()


def _strptime_format(fmt, default):
    if fmt in (None, 'default', 'any'):
        return default
    return fmt


def parse_cell(text, field, missing_values):
    """CSV cell text -> native value, by the descriptor alone."""
    if text in missing_values:
        return None
    t = field.get('type', 'string')
    if t == 'string' or t == 'any':
        return text
    if t in ('integer', 'year'):
        return int(text)
    if t == 'number':
        s = text
        g = field.get('groupChar')
        if g:
            s = s.replace(g, '')
        d = field.get('decimalChar', '.')
        if d != '.':
            s = s.replace(d, '.')
        return decimal.Decimal(s)
    if t == 'boolean':
        tv = field.get('trueValues', ['true', 'True', 'TRUE', '1'])
        fv = field.get('falseValues', ['false', 'False', 'FALSE', '0'])
        if text in tv:
            return True
        if text in fv:
            return False
        raise DecodeError('boolean cell %r not in trueValues/falseValues %r/%r' % (text, tv, fv))
    if t == 'date':
        return datetime.datetime.strptime(text, _strptime_format(field.get('format'), '%Y-%m-%d')).date()
    if t == 'time':
        return datetime.datetime.strptime(text, _strptime_format(field.get('format'), '%H:%M:%S')).time()
    if t == 'datetime':
        return datetime.datetime.strptime(text, _strptime_format(field.get('format'), '%Y-%m-%dT%H:%M:%SZ'))
    if t in ('array', 'object'):
        return json.loads(text)
    return text


def parse_json_value(v, field):
    if v is None:
        return None
    t = field.get('type', 'string')
    if t == 'date':
        return datetime.datetime.strptime(v, _strptime_format(field.get('format'), '%Y-%m-%d')).date()
    if t == 'time':
        return datetime.datetime.strptime(v, _strptime_format(field.get('format'), '%H:%M:%S')).time()
    if t == 'datetime':
        return datetime.datetime.strptime(v, _strptime_format(field.get('format'), '%Y-%m-%dT%H:%M:%SZ'))
    return v


def decode_resource(store, res):
    """-> (list of row dicts, raw bytes).  Raises DecodeError when the file cannot be decoded as described."""
    path = res['path']
    if isinstance(path, list):
        path = path[0]
    if not store.exists(path):
        raise DecodeError('file %r listed in the descriptor does not exist' % path)
    raw = store.read(path)
    fields = res['schema']['fields']
    missing = res['schema'].get('missingValues', [''])
    fmt = res.get('format', 'csv')
    try:
        text = raw.decode(res.get('encoding', 'utf-8'))
    except UnicodeDecodeError as e:
        raise DecodeError('cannot decode %r with the recorded encoding: %s' % (path, e))
    rows = []
    try:
        if fmt == 'csv':
            dia = res.get('dialect', {})
            reader = csv.reader(io.StringIO(text, newline=''),
                                delimiter=dia.get('delimiter', ','), quotechar=dia.get('quoteChar', '"'),
                                doublequote=dia.get('doubleQuote', True),
                                skipinitialspace=dia.get('skipInitialSpace', False),
                                escapechar=dia.get('escapeChar'))
            lines = list(reader)
            if not lines:
                raise DecodeError('CSV file %r has no header line' % path)
            header = lines[0]
            names = [f['name'] for f in fields]
            if header != names:
                raise DecodeError('CSV header %r != schema field names %r' % (header, names))
            for cells in lines[1:]:
                if len(cells) != len(fields):
                    raise DecodeError('CSV line with %d cells for %d fields: %r' % (len(cells), len(fields), cells))
                rows.append({f['name']: parse_cell(c, f, missing) for f, c in zip(fields, cells)})
        elif fmt == 'json':
            data = json.loads(text)
            if not isinstance(data, list):
                raise DecodeError('JSON data file is not a list')
            for item in data:
                if isinstance(item, dict):
                    extra = set(item) - set(f['name'] for f in fields)
                    if extra:
                        raise DecodeError('JSON row has undeclared keys %r' % sorted(extra))
                    rows.append({f['name']: parse_json_value(item.get(f['name']), f) for f in fields})
                else:
                    raise DecodeError('JSON row is not an object: %r' % (item,))
        else:
            raise DecodeError('unsupported format %r' % fmt)
    except DecodeError:
        raise
    except Exception as e:
        raise DecodeError('%s while decoding %r: %s' % (type(e).__name__, path, e))
    return rows, raw


def read_descriptor(store):
    if not store.exists('datapackage.json'):
        raise DecodeError('datapackage.json missing')
    try:
        return json.loads(store.read('datapackage.json').decode('utf-8'))
    except Exception as e:
        raise DecodeError('datapackage.json does not parse: %s' % e)


def md5(b):
    return hashlib.md5(b).hexdigest()
