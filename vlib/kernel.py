"""Evaluation kernel: imports the code under test from VERIF_REPO, feeds typed
tables to steps through the public `Flow(...).datastream(ds)` entry point and
materialises results.  Nothing here is an oracle."""
import os
import sys
import copy
import shutil
import tempfile
import traceback
import contextlib
import io
import logging
import warnings

REPO = os.path.realpath(os.environ.get('VERIF_REPO', '/repo'))
if sys.path[0] != REPO:
    sys.path.insert(0, REPO)
sys.dont_write_bytecode = True

import dataflows  # noqa: E402
from dataflows import Flow, DataStream, ResourceWrapper  # noqa: E402
from dataflows.base.exceptions import ProcessorError  # noqa: E402
from datapackage import Package  # noqa: E402

_df_file = os.path.realpath(dataflows.__file__)
if not _df_file.startswith(REPO + os.sep):
    sys.stderr.write('HARNESS-ERROR: dataflows imported from %s, expected under %s\n' % (_df_file, REPO))
    sys.exit(2)

logging.disable(logging.CRITICAL)
warnings.simplefilter('ignore')


class Violation(Exception):
    """An oracle mismatch.  `signature` is the coarse cause used for bucketing and
    for matching known findings; `detail` is free-form (JSON-able)."""

    def __init__(self, signature, detail=None):
        super().__init__(signature)
        self.signature = signature
        self.detail = detail


class Info:
    """What a passing case reports back to the runner."""
    __slots__ = ('nontrivial', 'classes', 'key', 'rejected', 'evals', 'subkeys', 'extra')

    def __init__(self, nontrivial=False, classes=(), key=None, rejected=False, evals=1, subkeys=None, extra=None):
        self.nontrivial = nontrivial
        self.classes = list(classes)
        self.key = key
        self.rejected = rejected
        self.evals = evals
        # subkeys: one entry per distinct non-trivial sub-execution of the case (e.g. crash runs, schedules)
        self.subkeys = subkeys
        # extra: numeric counters summed into the evidence
        self.extra = extra or {}


class Ctx:
    """Per-worker context: scratch directory factory, tier, known signatures."""

    def __init__(self, tier='quick', root=None):
        self.tier = tier
        self.root = root or tempfile.mkdtemp(prefix='dfverif-', dir=scratch_base())
        self._n = 0

    def tmpdir(self):
        self._n += 1
        d = os.path.join(self.root, 'c%d' % self._n)
        os.makedirs(d)
        return d

    def clean_case(self):
        for n in os.listdir(self.root):
            shutil.rmtree(os.path.join(self.root, n), ignore_errors=True)

    def close(self):
        shutil.rmtree(self.root, ignore_errors=True)


def scratch_base():
    base = os.environ.get('VERIF_SCRATCH', '/var/tmp')
    os.makedirs(base, exist_ok=True)
    return base


@contextlib.contextmanager
def quiet():
    """Swallow prints of the code under test (checkpoint / printer / warnings)."""
    buf = io.StringIO()
    with contextlib.redirect_stdout(buf), contextlib.redirect_stderr(buf):
        yield buf


_END = object()


def feed(descriptor, tables, sequential=False):
    """A DataStream holding `tables` (list of row lists) typed by `descriptor`.
    Deep copies both, so the case is never mutated by the code under test.

    sequential=True emulates a streaming source (like `unstream` or a checkpoint reader): all
    resources are read from ONE underlying sequence with end-of-resource markers, so a
    resource's iterator only yields its own rows if every earlier resource was fully consumed
    first - exactly the contract the framework's lazy chaining relies on."""
    pkg = Package(copy.deepcopy(descriptor))
    assert len(pkg.resources) == len(tables), 'harness: descriptor/tables mismatch'
    if not sequential:
        return DataStream(pkg, [ResourceWrapper(res, iter(copy.deepcopy(rows)))
                                for res, rows in zip(pkg.resources, tables)])
    flat = []
    for rows in tables:
        flat.extend(copy.deepcopy(rows))
        flat.append(_END)
    shared = iter(flat)

    def reader():
        for item in shared:
            if item is _END:
                return
            yield item
    return DataStream(pkg, (ResourceWrapper(res, reader()) for res in pkg.resources))


def materialise(ds):
    """(descriptor before draining, rows per resource, descriptor after draining)."""
    before = copy.deepcopy(ds.dp.descriptor)
    rows = [list(r) for r in ds.res_iter]
    after = copy.deepcopy(ds.dp.descriptor)
    return before, rows, after


def run_steps(steps, descriptor, tables, sequential=False):
    """Run fresh step objects on a fed package; returns (descriptor, tables)."""
    with quiet():
        ds = Flow(*steps).datastream(feed(descriptor, tables, sequential=sequential))
        before, rows, _after = materialise(ds)
    return before, rows


def mkdesc(resources):
    """resources: list of (name, fields, extra_schema_dict_or_None) -> package descriptor."""
    out = []
    for name, fields, extra in resources:
        schema = {'fields': copy.deepcopy(fields), 'missingValues': ['']}
        if extra:
            schema.update(copy.deepcopy(extra))
        out.append({'name': name, 'path': name + '.csv', 'profile': 'tabular-data-resource',
                    'schema': schema})
    return {'profile': 'data-package', 'resources': out}


def inner_frame(exc):
    """(file:func) of the innermost traceback frame inside the dataflows package."""
    tb = traceback.extract_tb(exc.__traceback__)
    best = None
    for fr in tb:
        if (REPO + os.sep + 'dataflows') in os.path.realpath(fr.filename):
            best = '%s:%s' % (os.path.relpath(os.path.realpath(fr.filename), REPO), fr.name)
    return best


def root_cause(exc):
    """Unwrap ProcessorError chains to the original exception."""
    seen = 0
    while isinstance(exc, ProcessorError) and seen < 20:
        exc = exc.cause
        seen += 1
    return exc


def describe_exc(exc):
    rc = root_cause(exc)
    return '%s(%s)' % (type(rc).__name__, str(rc)[:300])


def unexpected(exc, where=''):
    """Turn an exception raised by the code under test into a Violation."""
    rc = root_cause(exc)
    if type(rc).__name__ == 'HarnessUnsupported':
        # the code under test uses something the harness' shims do not model: a harness limitation (exit 2), never a violation
        raise rc
    sig = 'unexpected-exception:%s@%s' % (type(rc).__name__, inner_frame(rc) or inner_frame(exc) or '?')
    return Violation(sig, {'where': where, 'error': describe_exc(exc)})


# ---- performance shim on a third-party library (harness process only) -------------------
# datapackage.Profile re-validates the (constant, packaged) profile JSON schema against the
# JSON-Schema meta-schema on every Package()/Resource() construction (~45 ms each).  The
# result depends only on the profile name, so it is memoised per name.  Descriptor validation
# itself (Profile.validate) is untouched.
def _install_profile_cache():
    import datapackage.profile as _p
    orig = _p.Profile._check_schema
    done = set()

    def _check_schema(self):
        name = self.__dict__.get('_name')
        if isinstance(name, str):
            if name in done:
                return
            orig(self)
            done.add(name)
        else:
            orig(self)
    _p.Profile._check_schema = _check_schema


if os.environ.get('VERIF_NO_PROFILE_CACHE') != '1':
    _install_profile_cache()


def passthrough_desc(descriptor):
    """The descriptor as it looks after passing through one no-op step (datapackage's commit()
    expands defaults such as field format 'default').  Used as the 'unchanged' reference."""
    pkg = Package(copy.deepcopy(descriptor))
    ds = DataStream(pkg, [ResourceWrapper(r, iter(())) for r in pkg.resources])
    with quiet():
        out = Flow(dataflows.DataStreamProcessor()).datastream(ds)
        return copy.deepcopy(out.dp.descriptor)


class FeedStep(dataflows.DataStreamProcessor):
    """A source step (public extension point: DataStreamProcessor subclass) that appends typed tables
    without stripping or casting, so that Flow(FeedStep(...), steps...).results()/process() can be
    observed end to end (including the ProcessorError wrapping done by the driver)."""

    def __init__(self, descriptor, tables, sequential=False):
        super().__init__()
        self._desc = copy.deepcopy(descriptor)
        self._tables = tables
        self._sequential = sequential

    def process_datapackage(self, dp):
        for k, v in self._desc.items():
            if k != 'resources':
                dp.descriptor.setdefault(k, v)
        dp.descriptor.setdefault('resources', []).extend(self._desc['resources'])
        return dp

    def process_resources(self, resources):
        yield from super().process_resources(resources)
        ds = feed(self._desc, self._tables, sequential=self._sequential)
        for rw in ds.res_iter:
            yield rw.it


def run_results(steps, descriptor, tables, on_error=None, sequential=False):
    """Flow(FeedStep, *steps).results(on_error) -> (tables, descriptor, stats); raises what Flow raises."""
    with quiet():
        res, dp, stats = Flow(FeedStep(descriptor, tables, sequential), *steps).results(on_error=on_error)
    return res, copy.deepcopy(dp.descriptor), stats
