"""Tagged JSON used for replay files and evidence samples (harness-side only;
deliberately independent of dataflows' own extended_json, which is under test)."""
import json
import decimal
import datetime
import math


def _enc(o):
    if o is None or isinstance(o, (bool, str)):
        return o
    if isinstance(o, int):
        return o
    if isinstance(o, float):
        if math.isnan(o) or math.isinf(o):
            return {'$float': repr(o)}
        return o
    if isinstance(o, decimal.Decimal):
        return {'$dec': str(o)}
    if isinstance(o, datetime.datetime):
        off = o.utcoffset()
        return {'$dt': o.replace(tzinfo=None).isoformat(),
                'off': None if off is None else off.total_seconds(),
                'name': o.tzname() if off is not None else None}
    if isinstance(o, datetime.date):
        return {'$date': o.isoformat()}
    if isinstance(o, datetime.time):
        return {'$time': o.isoformat()}
    if isinstance(o, datetime.timedelta):
        return {'$td': [o.days, o.seconds, o.microseconds]}
    if isinstance(o, tuple):
        return {'$tuple': [_enc(x) for x in o]}
    if isinstance(o, (set, frozenset)):
        return {'$set': sorted((_enc(x) for x in o), key=lambda x: json.dumps(x, sort_keys=True))}
    if isinstance(o, list):
        return [_enc(x) for x in o]
    if isinstance(o, dict):
        if all(isinstance(k, str) for k in o) and not any(k.startswith('$') for k in o):
            return {k: _enc(v) for k, v in o.items()}
        return {'$dict': [[_enc(k), _enc(v)] for k, v in o.items()]}
    return {'$repr': repr(o)}


def _dec(o):
    if isinstance(o, list):
        return [_dec(x) for x in o]
    if isinstance(o, dict):
        if '$float' in o:
            return float(o['$float'])
        if '$dec' in o:
            return decimal.Decimal(o['$dec'])
        if '$dt' in o:
            d = datetime.datetime.fromisoformat(o['$dt'])
            if o.get('off') is not None:
                td = datetime.timedelta(seconds=o['off'])
                tz = datetime.timezone(td, o['name']) if o.get('name') else datetime.timezone(td)
                d = d.replace(tzinfo=tz)
            return d
        if '$date' in o:
            return datetime.date.fromisoformat(o['$date'])
        if '$time' in o:
            return datetime.time.fromisoformat(o['$time'])
        if '$td' in o:
            return datetime.timedelta(days=o['$td'][0], seconds=o['$td'][1], microseconds=o['$td'][2])
        if '$tuple' in o:
            return tuple(_dec(x) for x in o['$tuple'])
        if '$set' in o:
            return set(_dec(x) for x in o['$set'])
        if '$dict' in o:
            return {_dec(k): _dec(v) for k, v in o['$dict']}
        if '$repr' in o:
            return o['$repr']
        return {k: _dec(v) for k, v in o.items()}
    return o


def dumps(o, **kw):
    return json.dumps(_enc(o), ensure_ascii=True, **kw)


def loads(s):
    return _dec(json.loads(s))


def canon(o):
    """Canonical string of a case (sorted keys) - used for hashing / distinctness."""
    return json.dumps(_enc(o), sort_keys=True, ensure_ascii=True)


def plain(o, maxlen=2000):
    """JSON-schema-safe rendering for evidence samples (tagged), truncated."""
    e = _enc(o)
    s = json.dumps(e, ensure_ascii=True)
    if len(s) <= maxlen:
        return e
    return {'truncated': s[:maxlen] + '...'}
