"""Runner: tiers, seeds, shards, replay, known findings, evidence, exit codes.

  python -m vlib.run <ID> --tier quick|thorough
  python -m vlib.run <ID> --replay FILE

exit 0: held on everything explored (KNOWN-FINDING lines possible)
exit 1: VIOLATION property=<id> replay=<path>   (violation not in known_findings.json)
exit 2: harness error (never a violation)
"""
import os
import sys
import json
import time
import glob
import hashlib
import argparse
import importlib
import traceback
import collections
import multiprocessing as mp

VERIF = os.path.dirname(os.path.dirname(os.path.abspath(__file__)))


def _load_known(pid):
    path = os.path.join(VERIF, 'known_findings.json')
    if not os.path.exists(path):
        return []
    with open(path) as f:
        data = json.load(f)
    return [e for e in data.get('open', []) if e.get('property') == pid]


def _h(s):
    return int.from_bytes(hashlib.blake2b(s.encode('utf8'), digest_size=8).digest(), 'big')


class ShardResult:
    def __init__(self):
        self.evals = 0
        self.cases = 0
        self.rejected = 0
        self.nontrivial = set()
        self.classes = collections.Counter()
        self.samples = []
        self.known_hits = {}      # signature -> [count, smallest case json]
        self.violations = {}      # signature -> {'case': json str, 'detail': ...}
        self.harness_error = None
        self.budget_exhausted = False
        self.extra = {}


class CaseTimeout(BaseException):
    """One case ran longer than the per-case cap (an endless loop in the code under test, most likely)."""


def _mk_body(mod, ctx, res, known_sigs, shrink_cap, case_cap=None):
    import signal
    from vlib import jsonx
    from vlib.kernel import Violation
    state = {'first_fail': None}

    def _alarm(signum, frame):
        raise CaseTimeout()

    def guarded_check(case):
        # a watchdog per case: a case that does not end is abandoned and counted as inconclusive (never as a violation,
        # never as a pass); the run goes on with the next case
        if not case_cap:
            return mod.check(case, ctx)
        old = signal.signal(signal.SIGALRM, _alarm)
        signal.setitimer(signal.ITIMER_REAL, case_cap)
        try:
            return mod.check(case, ctx)
        finally:
            signal.setitimer(signal.ITIMER_REAL, 0)
            signal.signal(signal.SIGALRM, old)

    def body(case):
        # after the shrink time cap: let everything pass so Hypothesis stops quickly;
        # the smallest failing case is tracked here, not taken from Hypothesis.
        if state['first_fail'] is not None and time.time() - state['first_fail'] > shrink_cap:
            return
        # what is checked is exactly what a replay file would hold: the case goes through its JSON form first, so
        # objects shared between parts of a generated case (aliased rows / nested values) can never make a run
        # differ from its replay
        case = jsonx.loads(jsonx.dumps(case))
        try:
            try:
                info = guarded_check(case)
            finally:
                ctx.clean_case()
        except CaseTimeout:
            res.extra['cases_abandoned_after_the_per_case_time_cap'] = res.extra.get('cases_abandoned_after_the_per_case_time_cap', 0) + 1
            res.budget_exhausted = True
            return
        except Violation as v:
            res.cases += 1
            res.evals += 1
            cj = jsonx.dumps(case)
            if v.signature in known_sigs:
                slot = res.known_hits.setdefault(v.signature, [0, cj])
                slot[0] += 1
                if len(cj) < len(slot[1]):
                    slot[1] = cj
                info = getattr(v, 'info', None)
                if info is not None:
                    # everything else about the case was checked before the known finding was reported
                    for c in info.classes:
                        res.classes[c] += 1
                    if info.nontrivial:
                        res.nontrivial.add(_h(jsonx.canon(case)))
                return
            if state['first_fail'] is None:
                state['first_fail'] = time.time()
            cur = res.violations.get(v.signature)
            if cur is None or len(cj) < len(cur['case']):
                res.violations[v.signature] = {'case': cj, 'detail': jsonx.plain(v.detail)}
            raise
        res.cases += 1
        res.evals += info.evals
        if info.rejected:
            res.rejected += 1
        for c in info.classes:
            res.classes[c] += 1
        for k, v in info.extra.items():
            res.extra[k] = res.extra.get(k, 0) + v
        if info.nontrivial:
            key = info.key if info.key is not None else jsonx.canon(case)
            key = key if isinstance(key, str) else jsonx.canon(key)
            if info.subkeys is not None:
                for sk in info.subkeys:
                    res.nontrivial.add(_h(key + '|' + str(sk)))
            else:
                res.nontrivial.add(_h(key))
            if len(res.samples) < 3:
                res.samples.append(jsonx.plain(case))
    return body


def _worker(args):
    kind, pid, tier, shard, seed, payload, known_sigs = args
    # silence the code under test at fd level (workers report through the pool pipe)
    devnull = os.open(os.devnull, os.O_WRONLY)
    os.dup2(devnull, 1)
    os.dup2(devnull, 2)
    try:
        # `kill -USR1 <worker pid>` appends the worker's Python stacks to /var/tmp/dfverif-stacks.txt (diagnosing hangs)
        import faulthandler
        import signal as _sig
        faulthandler.register(_sig.SIGUSR1, file=open('/var/tmp/dfverif-stacks.txt', 'a'), all_threads=True)
    except Exception:
        pass
    res = ShardResult()
    ctx = None
    try:
        from vlib import jsonx
        from vlib.kernel import Ctx, Violation
        mod = importlib.import_module('props.' + pid.lower())
        ctx = Ctx(tier=tier)
        ctx.shard = shard
        ctx.seed = seed
        budget = mod.BUDGET[tier]
        shrink_cap = 20 if tier == 'quick' else 90
        case_cap = getattr(mod, 'CASE_CAP', {}).get(tier, 90 if tier == 'quick' else 400)
        body = _mk_body(mod, ctx, res, known_sigs, shrink_cap, case_cap)
        if kind == 'cases':
            # explicit cases (replays / enumerated product): no Hypothesis involved
            for case in payload:
                try:
                    body(case)
                except Violation:
                    pass
        elif kind == 'custom':
            mod.custom(ctx, res, shard, seed, payload, known_sigs)
        else:
            import hypothesis
            from hypothesis import given, settings, HealthCheck, Phase
            n_total, deadline_ts = payload
            chunk = budget.get('chunk', 50)
            done = 0
            k = 0
            strat = mod.cases(tier)
            while done < n_total and not res.violations:
                if time.time() > deadline_ts:
                    res.budget_exhausted = True
                    break
                n = min(chunk, n_total - done)

                @hypothesis.seed(seed * 100003 + shard * 1009 + k)
                @settings(max_examples=n, database=None, deadline=None, derandomize=False,
                          report_multiple_bugs=False,
                          suppress_health_check=[HealthCheck.too_slow, HealthCheck.data_too_large,
                                                 HealthCheck.large_base_example],
                          phases=[Phase.generate, Phase.shrink])
                @given(strat)
                def t(case):
                    body(case)
                try:
                    t()
                except Violation:
                    pass
                except hypothesis.errors.Flaky:
                    if not res.violations:
                        raise
                except BaseException as e:  # noqa
                    # Hypothesis wraps some failures; if we recorded a violation, that is the verdict
                    if not res.violations:
                        raise
                done += n
                k += 1
    except BaseException:  # harness error
        res.harness_error = traceback.format_exc()[-4000:]
    finally:
        if ctx is not None:
            ctx.close()
    return res


def _write_failure(pid, sig, rec):
    d = os.path.join(VERIF, 'failures', pid)
    os.makedirs(d, exist_ok=True)
    body = {'property': pid, 'signature': sig, 'detail': rec.get('detail'),
            'case': json.loads(rec['case'])}
    s = json.dumps(body, indent=1, sort_keys=True)
    name = hashlib.sha1((sig + rec['case']).encode()).hexdigest()[:12] + '.json'
    path = os.path.join(d, name)
    with open(path, 'w') as f:
        f.write(s)
    return path


def _load_case_file(path):
    from vlib import jsonx
    with open(path) as f:
        raw = f.read()
    doc = jsonx.loads(raw)
    return doc['case'] if isinstance(doc, dict) and 'case' in doc else doc


def main(argv=None):
    """All scratch data of a run lives under ONE directory created here and removed here, whatever happens to the
    worker processes (pool workers exit without running atexit handlers; crash-enumeration children are killed)."""
    import shutil
    import signal
    import tempfile
    base = os.environ.get('VERIF_SCRATCH', '/var/tmp')
    os.makedirs(base, exist_ok=True)
    run_root = tempfile.mkdtemp(prefix='dfverif-run-', dir=base)
    os.environ['VERIF_SCRATCH'] = run_root
    # the library leaves its own temporary files behind (dumpers, kvfile, sort): send them to the same place
    libtmp = os.path.join(run_root, 'libtmp')
    os.makedirs(libtmp, exist_ok=True)
    os.environ['TMPDIR'] = libtmp
    tempfile.tempdir = None

    def _term(signum, frame):
        raise SystemExit(2)
    try:
        signal.signal(signal.SIGTERM, _term)
    except (ValueError, OSError):
        pass
    try:
        return _main(argv)
    finally:
        shutil.rmtree(run_root, ignore_errors=True)


def _main(argv=None):
    ap = argparse.ArgumentParser()
    ap.add_argument('pid')
    ap.add_argument('--tier', default=os.environ.get('VERIF_TIER', 'quick'), choices=['quick', 'thorough'])
    ap.add_argument('--replay')
    ap.add_argument('--examples', type=int)
    ap.add_argument('--shards', type=int)
    ap.add_argument('--seconds', type=float)
    ap.add_argument('--no-evidence', action='store_true')
    a = ap.parse_args(argv)
    pid = a.pid.upper()
    t0 = time.time()
    os.chdir(VERIF)
    if VERIF not in sys.path:
        sys.path.insert(0, VERIF)
    try:
        seed = int(os.environ.get('VERIF_SEED', '1') or '1')
    except ValueError:
        seed = 1
    try:
        from vlib import kernel  # noqa  (asserts dataflows comes from VERIF_REPO)
        mod = importlib.import_module('props.' + pid.lower())
    except SystemExit:
        raise
    except BaseException:
        traceback.print_exc()
        print('HARNESS-ERROR property=%s cannot import check' % pid)
        return 2
    known = _load_known(pid)
    known_sigs = frozenset(e['signature'] for e in known)
    budget = dict(mod.BUDGET[a.tier])
    if a.examples:
        budget['examples'] = a.examples
    if a.shards:
        budget['shards'] = a.shards
    if a.seconds:
        budget['seconds'] = a.seconds
    shards = max(1, min(budget.get('shards', 8), os.cpu_count() or 4))

    ctxmp = mp.get_context('fork')
    tasks = []
    if a.replay:
        cases = [_load_case_file(a.replay)]
        tasks.append(('cases', pid, a.tier, 0, seed, cases, frozenset()))
    else:
        # 1. saved regression replays + replays of known findings
        rcases = []
        for p in sorted(glob.glob(os.path.join(VERIF, 'replays', pid, '*.json'))):
            rcases.append(_load_case_file(p))
        if rcases:
            tasks.append(('cases', pid, a.tier, 0, seed, rcases, known_sigs))
        # 2. enumerated (exhaustive) part, if the property has one
        if hasattr(mod, 'enumerate_cases'):
            ecases = list(mod.enumerate_cases(a.tier))
            per = max(1, (len(ecases) + shards - 1) // shards)
            for i in range(0, len(ecases), per):
                tasks.append(('cases', pid, a.tier, i // per, seed, ecases[i:i + per], known_sigs))
        # 3. custom drivers (fault enumeration / schedulers)
        if hasattr(mod, 'custom'):
            for s in range(shards):
                tasks.append(('custom', pid, a.tier, s, seed,
                              (budget, t0 + budget.get('seconds', 600)), known_sigs))
        # 4. generated cases
        if hasattr(mod, 'cases') and budget.get('examples', 0) > 0:
            per = max(1, budget['examples'] // shards)
            deadline_ts = t0 + budget.get('seconds', 600)
            for s in range(shards):
                tasks.append(('gen', pid, a.tier, s, seed, (per, deadline_ts), known_sigs))

    with ctxmp.Pool(processes=min(len(tasks), os.cpu_count() or 4) or 1) as pool:
        results = pool.map(_worker, tasks, chunksize=1)

    # ---- merge
    evals = cases_n = rejected = 0
    nontrivial = set()
    classes = collections.Counter()
    samples = []
    known_hits = {}
    violations = {}
    harness_errors = []
    budget_exhausted = False
    extra = {}
    for r in results:
        evals += r.evals
        cases_n += r.cases
        rejected += r.rejected
        nontrivial |= r.nontrivial
        classes.update(r.classes)
        for s in r.samples:
            if len(samples) < 4:
                samples.append(s)
        for sig, (cnt, cj) in r.known_hits.items():
            slot = known_hits.setdefault(sig, [0, cj])
            slot[0] += cnt
        for sig, rec in r.violations.items():
            cur = violations.get(sig)
            if cur is None or len(rec['case']) < len(cur['case']):
                violations[sig] = rec
        if r.harness_error:
            harness_errors.append(r.harness_error)
        budget_exhausted = budget_exhausted or r.budget_exhausted
        for k, v in r.extra.items():
            if isinstance(v, (int, float)) and not isinstance(v, bool):
                extra[k] = extra.get(k, 0) + v
            else:
                extra.setdefault(k, v)

    wall = time.time() - t0
    if a.replay:
        if harness_errors:
            print(harness_errors[0])
            print('HARNESS-ERROR property=%s' % pid)
            return 2
        if violations:
            for sig, rec in violations.items():
                print('replay: signature=%s detail=%s' % (sig, json.dumps(rec.get('detail'))[:1500]))
            print('VIOLATION property=%s replay=%s' % (pid, a.replay))
            return 1
        print('replay: property=%s held on %s' % (pid, a.replay))
        return 0

    # ---- known findings
    for e in known:
        hit = known_hits.get(e['signature'])
        print('KNOWN-FINDING: property=%s %s [signature=%s; reproduced %d time(s) this run]'
              % (pid, e['what'], e['signature'], hit[0] if hit else 0))

    viol_paths = []
    for sig, rec in violations.items():
        path = _write_failure(pid, sig, rec)
        viol_paths.append((sig, path, rec))

    if not a.no_evidence:
        level = getattr(mod, 'LEVEL', 'exploration')
        cov = {
            'evaluations': evals,
            'distinct_nontrivial': len(nontrivial),
            'rule': mod.RULE,
            'samples': samples,
            'cases': cases_n,
            'classes': dict(sorted(classes.items())),
            'rejected': rejected,
            'known_finding_hits': {k: v[0] for k, v in known_hits.items()},
            'budget_exhausted': budget_exhausted,
            'shards': shards,
            'repo': os.environ.get('VERIF_REPO', '/repo'),
        }
        cov.update(extra)
        if hasattr(mod, 'EXHAUSTIVE_NOTE'):
            cov['exhaustive_part'] = mod.EXHAUSTIVE_NOTE
        ev = {
            'property_id': pid, 'tier': a.tier, 'seed': seed, 'level': level,
            'coverage': cov, 'assumptions': list(getattr(mod, 'ASSUMPTIONS', [])),
            'wall_s': round(wall, 2), 'violations': len(violations),
        }
        os.makedirs(os.path.join(VERIF, 'evidence'), exist_ok=True)
        with open(os.path.join(VERIF, 'evidence', pid + '.json'), 'w') as f:
            json.dump(ev, f, indent=1, sort_keys=True)

    print('%s tier=%s seed=%d cases=%d evaluations=%d nontrivial_distinct=%d rejected=%d wall=%.1fs%s'
          % (pid, a.tier, seed, cases_n, evals, len(nontrivial), rejected, wall,
             ' (budget exhausted)' if budget_exhausted else ''))
    if harness_errors and not violations:
        print(harness_errors[0])
        print('HARNESS-ERROR property=%s (%d worker(s))' % (pid, len(harness_errors)))
        return 2
    if violations:
        for sig, path, rec in viol_paths:
            print('violation: signature=%s detail=%s' % (sig, json.dumps(rec.get('detail'))[:1200]))
            print('VIOLATION property=%s replay=%s' % (pid, os.path.relpath(path, VERIF)))
        return 1
    if cases_n == 0:
        print('HARNESS-ERROR property=%s no case was executed' % pid)
        return 2
    return 0


if __name__ == '__main__':
    sys.exit(main())
