"""Value / row comparison helpers (exact, except where a float is involved)."""
import math
import decimal
import fractions

NUM = (int, float, decimal.Decimal, fractions.Fraction)


def num_eq(a, b, rel=fractions.Fraction(1, 10 ** 24)):
    if isinstance(a, float) or isinstance(b, float):
        fa, fb = float(a), float(b)
        if math.isnan(fa) or math.isnan(fb):
            return math.isnan(fa) and math.isnan(fb)
        return fa == fb or math.isclose(fa, fb, rel_tol=1e-12, abs_tol=0.0)
    fa, fb = fractions.Fraction(a), fractions.Fraction(b)
    return fa == fb or abs(fa - fb) <= abs(fb) * rel


def val_eq(a, b, exact_numbers=False, rel=None):
    """Equality that does not confuse bool/int/str, compares numbers by value."""
    if a is None or b is None:
        return a is None and b is None
    if isinstance(a, bool) or isinstance(b, bool):
        return isinstance(a, bool) and isinstance(b, bool) and a == b
    if isinstance(a, NUM) and isinstance(b, NUM):
        if exact_numbers:
            return fractions.Fraction(a) == fractions.Fraction(b) if not (isinstance(a, float) and math.isnan(a)) else False
        return num_eq(a, b) if rel is None else num_eq(a, b, rel)
    if isinstance(a, (list, tuple)) and isinstance(b, (list, tuple)):
        return len(a) == len(b) and all(val_eq(x, y, exact_numbers, rel) for x, y in zip(a, b))
    if isinstance(a, dict) and isinstance(b, dict):
        return set(a) == set(b) and all(val_eq(a[k], b[k], exact_numbers, rel) for k in a)
    if type(a) is not type(b) and not (isinstance(a, str) and isinstance(b, str)):
        return False
    return a == b


def row_eq(g, e, exact_numbers=False, rel=None):
    return isinstance(g, dict) and set(g) == set(e) and all(val_eq(g[k], e[k], exact_numbers, rel) for k in e)


def rows_eq(got, exp, exact_numbers=False, rel=None):
    return len(got) == len(exp) and all(row_eq(g, e, exact_numbers, rel) for g, e in zip(got, exp))


def first_diff(got, exp, exact_numbers=False):
    if len(got) != len(exp):
        return {'n_got': len(got), 'n_expected': len(exp), 'got_head': got[:3], 'expected_head': exp[:3]}
    for i, (g, e) in enumerate(zip(got, exp)):
        if not row_eq(g, e, exact_numbers):
            return {'index': i, 'got': g, 'expected': e}
    return None


def schema_sig(desc, idx_or_name):
    res = desc['resources']
    if isinstance(idx_or_name, int):
        r = res[idx_or_name]
    else:
        r = next(x for x in res if x['name'] == idx_or_name)
    return [(f['name'], f.get('type')) for f in r.get('schema', {}).get('fields', [])]
