"""Shared Hypothesis strategies: typed values, colliding names, tables, packages."""
import copy
import datetime
import decimal
import string

from hypothesis import strategies as st

# --- names -------------------------------------------------------------------------
# field names built to collide under unanchored / prefix / regex matching
FIELD_NAMES = ['a', 'ab', 'b', 'a.b', 'a b', 'a(1)', 'a (1)', 'a|b', 'a+', '[a]', 'A', 'é',
               'c', 'x1', 'x2', 'x10', 'val', 'id', 'b_c', 'aXb']
PLAIN_FIELD_NAMES = ['a', 'ab', 'b', 'c', 'x1', 'x2', 'x10', 'val', 'id', 'b_c', 'A', 'aXb']
# resource names: Data Package grammar [-a-z0-9._/]+ ; prefixes of one another, regex metachar '.'
RES_NAMES = ['a', 'ab', 'a.b', 'a-b', 'a1b', 'res_1', 'res_10', 'b', 'abc', 'axb']

TYPES_BASIC = ['string', 'integer', 'number', 'boolean', 'date', 'datetime', 'array', 'object']
TYPES_ALL = TYPES_BASIC + ['time', 'year', 'duration']

_easy_alpha = string.ascii_letters + string.digits
_hard_chars = ['"', "'", ',', ';', '|', '\t', '\n', '\r\n', ' ', '\\', '{', '}', '%',
               'é', 'ß', 'Ω', '日', '\U0001F600', ' ', '#', ':']


def text_easy(min_size=0, max_size=6):
    return st.text(alphabet=_easy_alpha, min_size=min_size, max_size=max_size)


def text_hard(max_size=8, edge_ws=False):
    """Strings with quotes, delimiters, newlines, unicode.  No edge whitespace unless asked."""
    part = st.one_of(st.sampled_from(_hard_chars), st.sampled_from(list(_easy_alpha)))
    s = st.lists(part, min_size=0, max_size=max_size).map(''.join)
    if edge_ws:
        return s
    return s.map(lambda x: x.strip(' \t\n\r\x0b\x0c '))


def integers_mixed():
    return st.one_of(
        st.integers(-5, 5),
        st.sampled_from([0, 1, -1, 2 ** 31, -2 ** 31, 2 ** 53, -2 ** 53, 2 ** 53 + 1, 10 ** 30, -10 ** 30]),
        st.integers(-10 ** 6, 10 ** 6),
    )


def decimals_mixed(max_digits=30):
    small = st.integers(-10 ** 4, 10 ** 4).map(lambda i: decimal.Decimal(i) / 100)
    big = st.tuples(st.integers(-10 ** max_digits, 10 ** max_digits), st.integers(0, 12)).map(
        lambda t: decimal.Decimal(t[0]).scaleb(-t[1]))
    return st.one_of(small, big, st.sampled_from([decimal.Decimal('0'), decimal.Decimal('-1.5'),
                                                   decimal.Decimal('1E+3'), decimal.Decimal('0.1')]))


def floats_finite():
    return st.floats(allow_nan=False, allow_infinity=False, width=64).filter(lambda f: f == 0 or abs(f) > 1e-300)


def dates():
    return st.dates(min_value=datetime.date(1, 1, 1), max_value=datetime.date(9999, 12, 31))


def times(micro=False):
    t = st.times()
    if not micro:
        t = t.map(lambda x: x.replace(microsecond=0))
    return t


def tzinfos():
    return st.integers(-23 * 60 - 59, 23 * 60 + 59).map(
        lambda m: datetime.timezone(datetime.timedelta(minutes=m)))


def datetimes(micro=False, aware=None):
    d = st.datetimes(min_value=datetime.datetime(1, 1, 1), max_value=datetime.datetime(9999, 12, 31, 23, 59, 59))
    if not micro:
        d = d.map(lambda x: x.replace(microsecond=0))
    if aware is True:
        return st.tuples(d, tzinfos()).map(lambda t: t[0].replace(tzinfo=t[1]))
    if aware is None:
        return d
    return d


def json_scalars():
    return st.one_of(st.none(), st.booleans(), st.integers(-1000, 1000), text_easy(),
                     st.sampled_from(['é', '"', 'a,b', '']))


def json_values(depth=2):
    return st.recursive(json_scalars(),
                        lambda ch: st.one_of(st.lists(ch, max_size=3),
                                             st.dictionaries(text_easy(1, 3), ch, max_size=3)),
                        max_leaves=6)


def arrays():
    return st.lists(json_values(), max_size=3)


def objects():
    return st.dictionaries(text_easy(1, 3), json_values(), max_size=3)


def value(type_, hard=True, **kw):
    """Strategy for a native value conforming to Table Schema `type_` (never None)."""
    if type_ == 'string':
        return text_hard() if hard else text_easy()
    if type_ == 'integer':
        return integers_mixed() if hard else st.integers(-50, 50)
    if type_ == 'number':
        return st.one_of(decimals_mixed(), floats_finite()) if hard else \
            st.integers(-500, 500).map(lambda i: decimal.Decimal(i) / 10)
    if type_ == 'boolean':
        return st.booleans()
    if type_ == 'date':
        return dates()
    if type_ == 'time':
        return times(kw.get('micro', False))
    if type_ == 'datetime':
        return datetimes(kw.get('micro', False), kw.get('aware'))
    if type_ == 'year':
        return st.integers(0, 9999) if hard else st.integers(1900, 2100)
    if type_ == 'duration':
        return st.integers(0, 10 ** 7).map(lambda s: datetime.timedelta(seconds=s))
    if type_ == 'array':
        return arrays()
    if type_ == 'object':
        return objects()
    if type_ == 'any':
        return st.one_of(text_easy(), st.integers(-5, 5))
    raise AssertionError('harness: unknown type %r' % type_)


def nullable(strategy, p_null=0.15):
    # hypothesis has no weights; approximate with a 1-in-7 choice
    return st.one_of(*([strategy] * 6 + [st.none()]))


@st.composite
def fields(draw, min_fields=1, max_fields=4, names=None, types=None):
    names = names or FIELD_NAMES
    types = types or TYPES_BASIC
    n = draw(st.integers(min_fields, max_fields))
    chosen = draw(st.lists(st.sampled_from(names), min_size=n, max_size=n, unique=True))
    return [{'name': nm, 'type': draw(st.sampled_from(types))} for nm in chosen]


@st.composite
def rows_for(draw, flds, min_rows=0, max_rows=8, hard=True, nulls=True, tag=None):
    n = draw(st.integers(min_rows, max_rows))
    out = []
    for i in range(n):
        row = {}
        for f in flds:
            s = value(f['type'], hard=hard)
            row[f['name']] = draw(nullable(s) if nulls else s)
        out.append(row)
    return out


@st.composite
def resource(draw, name, min_fields=1, max_fields=4, min_rows=0, max_rows=8, names=None, types=None,
             hard=True, nulls=True):
    flds = draw(fields(min_fields, max_fields, names, types))
    rows = draw(rows_for(flds, min_rows, max_rows, hard, nulls))
    return {'name': name, 'fields': flds, 'rows': rows}


@st.composite
def package(draw, min_res=1, max_res=3, **kw):
    n = draw(st.integers(min_res, max_res))
    names = draw(st.lists(st.sampled_from(RES_NAMES), min_size=n, max_size=n, unique=True))
    return [draw(resource(nm, **kw)) for nm in names]


def descriptor_of(resources):
    """Package descriptor for generated resources (list of {'name','fields','rows',['pk'],['schema_extra']})."""
    from vlib.kernel import mkdesc
    items = []
    for r in resources:
        extra = dict(r.get('schema_extra') or {})
        if r.get('pk') is not None:
            extra['primaryKey'] = list(r['pk'])
        items.append((r['name'], r['fields'], extra))
    d = mkdesc(items)
    for r, rd in zip(resources, d['resources']):
        if r.get('path'):
            rd['path'] = r['path']
        # resource-level properties the resource 'arrives with' (e.g. the encoding / format of the file it was loaded from)
        rd.update(copy.deepcopy(r.get('res_extra') or {}))
    return d


def tables_of(resources):
    return [r['rows'] for r in resources]


def rare(draw, per_mille):
    """True in about per_mille/1000 of the generated cases.  Hypothesis' integers / sampled_from / one_of are
    heavily skewed towards their first and boundary values, which makes 'rare' classes common; a 64-bit draw
    passed through a hash gives the intended proportion (and stays a pure function of the drawn data)."""
    import hashlib
    x = draw(st.integers(0, 2 ** 64 - 1))
    h = int.from_bytes(hashlib.blake2b(x.to_bytes(8, 'big'), digest_size=8).digest(), 'big')
    return h % 1000 < per_mille
